#!/bin/sh
# Offline setup: nothing is built ahead of time.  Parse every TLA+ module once so
# that a broken specification is reported here and not as a property verdict.
set -e
cd "$(dirname "$0")"
mkdir -p build evidence replays
fail=0
for f in spec/*.tla; do
  m=$(basename "$f" .tla)
  if ! (cd spec && java -cp /opt/veriftools/tla/tla2tools.jar:/opt/veriftools/tla/CommunityModules-deps.jar tla2sany.SANY "$m.tla" > ../build/sany-$m.log 2>&1); then
    echo "SANY failed on $m"; fail=1
  fi
  if grep -q -e "Parse Error" -e "Semantic errors" -e "Fatal errors" build/sany-$m.log; then
    echo "SANY errors in $m"; fail=1
  fi
done
/venv/bin/python -c "import pycaption, lxml, bs4" || fail=1
exit $fail
