------------------------------- MODULE Blocks -------------------------------
(***************************************************************************)
(* Block structure of line-oriented caption documents (WebVTT, SRT): which  *)
(* lines make up which cue.                                                  *)
(*                                                                           *)
(* An abstract document is a sequence of blocks                              *)
(*   [kind |-> "cue" | "note", id |-> BOOLEAN, n |-> payload lines 0..,     *)
(*    sep |-> blank lines after the block]                                   *)
(* (for WebVTT preceded by a header of 1 + hdr lines and hsep blank lines). *)
(* Lines(doc) lays it out as a sequence of lines [c |-> class, b |-> block,  *)
(* j |-> index of the line within the payload (0 = not payload)] with       *)
(* classes "H" header / metadata, "I" identifier or SRT index, "T" timing,   *)
(* "X" text, "N" first line of a NOTE block, "B" blank.                      *)
(*                                                                           *)
(* Requirement (Cues): one caption per cue block with at least one payload   *)
(* line, in document order, made of exactly that block's payload lines.      *)
(* Design models: the readers' line loops as state machines (VttCode,        *)
(* SrtCode), each with a deviation constant "as found": the WebVTT loop       *)
(* before commit 62325d3 (a blank line ended the cue only when the cue had   *)
(* payload: TLC's counterexample is an empty cue followed by an identified   *)
(* cue), and the SRT loop's blank first payload line (KF-C01-6, pinned by a  *)
(* test of the suite).                                                       *)
(***************************************************************************)
EXTENDS Naturals, Sequences, TLC

Blank(k) == [j \in 1..k |-> [c |-> "B", b |-> 0, j |-> 0]]
BlockLines(fmt, blk, k) ==
  IF blk.kind = "note"
    THEN <<[c |-> "N", b |-> k, j |-> 0]>> \o [j \in 1..blk.n |-> [c |-> "X", b |-> k, j |-> 0]]
    ELSE (IF fmt = "SRT" \/ blk.id THEN <<[c |-> "I", b |-> k, j |-> 0]>> ELSE <<>>)
         \o <<[c |-> "T", b |-> k, j |-> 0]>> \o [j \in 1..blk.n |-> [c |-> "X", b |-> k, j |-> j]]
RECURSIVE Body(_, _, _)
Body(fmt, blocks, k) ==
  IF k > Len(blocks) THEN <<>>
  ELSE BlockLines(fmt, blocks[k], k) \o Blank(blocks[k].sep) \o Body(fmt, blocks, k + 1)
Lines(doc) ==
  (IF doc.fmt = "WebVTT" THEN [j \in 1..(1 + doc.hdr) |-> [c |-> "H", b |-> 0, j |-> 0]] \o Blank(doc.hsep) ELSE <<>>)
  \o Body(doc.fmt, doc.blocks, 1)

\* requirement: <<[b |-> block, ls |-> <<1, .., n>>]>> for the cue blocks that have payload
RECURSIVE CuesFrom(_, _)
CuesFrom(blocks, k) ==
  IF k > Len(blocks) THEN <<>>
  ELSE (IF blocks[k].kind = "cue" /\ blocks[k].n > 0 THEN <<[b |-> k, ls |-> [j \in 1..blocks[k].n |-> j]]>> ELSE <<>>)
       \o CuesFrom(blocks, k + 1)
Cues(doc) == CuesFrom(doc.blocks, 1)

(* ------------------------------------------------------------ WebVTTReader._parse *)
\* state: ft = found_timing, tb = block of the last timing line, nodes = payload collected
\* (as [b, j] of each line taken for text), out = captions so far
VttStep(st, ln, asFound) ==
  CASE ln.c = "T" -> [st EXCEPT !.ft = TRUE, !.tb = ln.b]
    [] ln.c = "B" ->
         IF st.ft /\ st.nodes # <<>>
           THEN [st EXCEPT !.ft = FALSE, !.nodes = <<>>, !.out = Append(@, [b |-> st.tb, ls |-> st.nodes])]
         ELSE IF st.ft /\ ~asFound THEN [st EXCEPT !.ft = FALSE]
         ELSE st
    [] OTHER -> IF st.ft THEN [st EXCEPT !.nodes = Append(@, [b |-> ln.b, j |-> ln.j])] ELSE st
RECURSIVE VttRun(_, _, _)
VttRun(st, ls, asFound) ==
  IF ls = <<>> THEN (IF st.nodes # <<>> THEN Append(st.out, [b |-> st.tb, ls |-> st.nodes]) ELSE st.out)
  ELSE VttRun(VttStep(st, Head(ls), asFound), Tail(ls), asFound)
VttCode(doc, asFound) == VttRun([ft |-> FALSE, tb |-> 0, nodes |-> <<>>, out |-> <<>>], Lines(doc), asFound)

(* ------------------------------------------------------------------ SRTReader.read *)
\* _find_text_line: from `start`, the index of the first non-blank line after the first blank one
\* (or Len + 2 past the end, as the code returns end_line + 1)
RECURSIVE FindNext(_, _, _)
FindNext(ls, k, found) ==
  IF k > Len(ls) THEN k + 1
  ELSE IF ls[k].c = "B" THEN FindNext(ls, k + 1, TRUE)
  ELSE IF found THEN k
  ELSE FindNext(ls, k + 1, FALSE)
\* asFound: a blank line is taken for text when it is the first payload line (`if not nodes or
\* line != ''`), so a cue without payload that is followed by two blank lines, or by one at the end
\* of the file, becomes a caption with empty text.  Pinned by tests/test_srt.py::test_extra_empty_line
\* (known finding KF-C01-6); asFound = FALSE is the reader the property asks for.
RECURSIVE SrtRun(_, _, _, _)
SrtRun(ls, start, out, asFound) ==
  IF start > Len(ls) \/ ls[start].c # "I" THEN out        \* `if not lines[start_line].isdigit(): break`
  ELSE LET nxt == FindNext(ls, start, FALSE)
           \* lines[start + 2 : end_line - 1], blank lines skipped once a node exists
           raw == SubSeq(ls, start + 2, IF nxt - 2 > Len(ls) THEN Len(ls) ELSE nxt - 2)
           pay == SelectSeq(raw, LAMBDA x : x.c # "B")
           lead == asFound /\ raw # <<>> /\ raw[1].c = "B"
       IN SrtRun(ls, nxt, IF pay = <<>> /\ ~lead THEN out
                          ELSE Append(out, [b |-> ls[start].b, ls |-> [k \in 1..Len(pay) |-> [b |-> pay[k].b, j |-> pay[k].j]]]),
                 asFound)
SrtCode(doc, asFound) == SrtRun(Lines(doc), 1, <<>>, asFound)

\* the design models return the identity of every line taken for text; the requirement in the same shape
Want(doc) == LET c == Cues(doc) IN
  [k \in 1..Len(c) |-> [b |-> c[k].b, ls |-> [j \in 1..Len(c[k].ls) |-> [b |-> c[k].b, j |-> j]]]]

(* ----------------------------------------------------------------- judging a record *)
\* rec.doc = the abstract document; rec.obs = [ok, caps] with caps = sequence of
\* [t |-> block whose timing line carries the caption's start, ls |-> sequence of <<block, j>>]
\* recovered from the returned captions (every payload line is rendered as "b<block>j<j>", an
\* identifier as "id<block>", a NOTE line as "note<block>": the latter two come back as <<block, 0>>)
Shape(model) == [k \in 1..Len(model) |-> [t |-> model[k].b, ls |-> [j \in 1..Len(model[k].ls) |-> <<model[k].ls[j].b, model[k].ls[j].j>>]]]
Against(rec, want) ==
  IF ~rec.obs.ok THEN (IF want = <<>> THEN "ok" ELSE "WellFormedDocumentRefused")
  ELSE IF Len(rec.obs.caps) # Len(want) THEN "NotOneCaptionPerNonEmptyCue"
  ELSE IF \E k \in 1..Len(want) : rec.obs.caps[k].t # want[k].t THEN "CaptionTimedByAnotherCue"
  ELSE IF \E k \in 1..Len(want) : rec.obs.caps[k].ls # want[k].ls THEN "CueTextNotItsPayloadLines"
  ELSE "ok"
VerdictBlocks(rec) == Against(rec, Shape(Want(rec.doc)))
\* known deviation KF-C01-6: the SRT reader as found
VerdictBlocksDev(rec) ==
  Against(rec, Shape(IF rec.doc.fmt = "SRT" THEN SrtCode(rec.doc, TRUE) ELSE VttCode(rec.doc, FALSE)))
=============================================================================
