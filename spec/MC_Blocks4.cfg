SPECIFICATION Spec
CONSTANT MaxBlocks = 4
CONSTANT AsFound = FALSE
CONSTANT AsFoundSrt = FALSE
CONSTANT Emit = TRUE
INVARIANT ReadersMeetRequirement
INVARIANT EmitCase
CHECK_DEADLOCK FALSE
