SPECIFICATION Spec
CONSTANTS
  MaxOps = 4
  MaxSets = 3
  SharedDefaultStyles = FALSE
  ReaderKeepsStash = FALSE
  SpanFlagSurvives = FALSE
  Emit = TRUE
INVARIANT Isolation
INVARIANT OutputsAreFunctions
INVARIANT EmitCase
CHECK_DEADLOCK FALSE
