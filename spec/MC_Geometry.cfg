SPECIFICATION Spec
CONSTANTS
  MaxLen = 4
  Emit = TRUE
INVARIANT DfaMeetsGrammar
INVARIANT DenotedWellFormed
INVARIANT EmitCase
CHECK_DEADLOCK FALSE
