SPECIFICATION Spec
CONSTANTS
  MaxNodes = 4
  AsFound = FALSE
  Emit = TRUE
INVARIANT ModelMeetsRequirement
INVARIANT EmitCase
CHECK_DEADLOCK FALSE
