------------------------------ MODULE MC_LineLen ------------------------------
(* Design model of SCCReader's post-read length scan: a dictionary keyed by the  *)
(* formatted start of each caption.  Overwrites = TRUE models the code as found   *)
(* (an existing key is overwritten, a new key is extended); FALSE the repair.     *)
(* Requirement: the scan raises exactly when some caption has a long line, and    *)
(* then names every long line, whatever the order and the start keys.             *)
EXTENDS Naturals, Sequences, FiniteSets, TLC
CONSTANTS MaxCaps, Overwrites
Keys == {"k1", "k2"}
VARIABLE caps              \* sequence of [key, long : BOOLEAN (has a line > 32), id]
Init == caps = <<>>
Next == /\ Len(caps) < MaxCaps
        /\ \E k \in Keys, l \in BOOLEAN : caps' = Append(caps, [key |-> k, long |-> l, id |-> Len(caps) + 1])
Spec == Init /\ [][Next]_caps
\* the scan: d maps key -> set of ids of long lines
RECURSIVE Scan(_, _)
Scan(cs, d) ==
  IF cs = <<>> THEN d
  ELSE LET c == Head(cs)
           found == IF c.long THEN {c.id} ELSE {} IN
       Scan(Tail(cs), IF c.key \in DOMAIN d
                         THEN (IF Overwrites THEN [d EXCEPT ![c.key] = found] ELSE [d EXCEPT ![c.key] = @ \cup found])
                         ELSE (c.key :> found) @@ d)
Named == LET d == Scan(caps, <<>>) IN UNION {d[k] : k \in DOMAIN d}
Raises == Named # {}
LongIds == {caps[k].id : k \in {j \in 1..Len(caps) : caps[j].long}}
ScanMeetsRequirement == (Raises <=> LongIds # {}) /\ (Raises => Named = LongIds)
=============================================================================
