------------------------------ MODULE Trace_Scc ------------------------------
EXTENDS Scc608, Json, IOUtils
Cases == ndJsonDeserialize(IOEnv.TRACE_FILE)
VerdictScc(rec) ==
  CASE rec.k = "popon" -> VerdictPopOn(rec)
    [] rec.k = "popon_dev" -> VerdictPopOnDev(rec)
    [] rec.k = "timing" -> VerdictTiming(rec)
    [] OTHER -> "UnknownRecordKind"
VARIABLE i
Init == i \in 1..Len(Cases)
Next == /\ i > 0
        /\ LET v == VerdictScc(Cases[i]) IN
           IF v = "ok" THEN TRUE ELSE PrintT("REJECT " \o Cases[i].id \o " " \o v)
        /\ i' = 0
Spec == Init /\ [][Next]_i
=============================================================================
