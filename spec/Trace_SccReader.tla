-------------------------- MODULE Trace_SccReader --------------------------
(***************************************************************************)
(* Trace validation of SCCReader against SccReader.tla.                     *)
(*                                                                          *)
(* A record is one execution of SCCReader.read() with the guarded hook on:  *)
(* rec.events is the sequence of logged steps                               *)
(*   [k |-> "line", f]                      a new line, label in frames     *)
(*   [k |-> "word", w, c, obs]              one consumed word, its class    *)
(*                                          (decided by the harness's own   *)
(*                                          code tables) and the reader's   *)
(*                                          state after it                  *)
(*   [k |-> "end", obs]                     after the final flush           *)
(* The trace is replayed through SccReader!Step / Line / End; after every   *)
(* step the logged state must equal the model's.  Two things are taken from *)
(* the log rather than computed (SccReader.tla says why): how many captions *)
(* a store creates, and whether the active buffer is empty after a word     *)
(* that only edits text.  Times are logged in nanoseconds and compared with *)
(* the model's frame counts through Scc608!Instant (2 ns tolerance).        *)
(***************************************************************************)
EXTENDS Scc608, Json, IOUtils
R == INSTANCE SccReader
Cases == ndJsonDeserialize(IOEnv.TRACE_FILE)
J == 5   \* "new.start - last.end < 5 frames + 1 us" joins gaps of up to five frames

TimeIs(obsNs, f, drop) == IF f = 0 THEN obsNs = <<>> ELSE CloseTo(obsNs, Instant(f, drop, 0))

\* first field in which the logged state differs from the model's, or "ok"
Compare(st, o, drop) ==
  IF o.mode # st.mode THEN "ActiveBufferDiffers"
  ELSE IF \E m \in R!Modes : o.empty[m] # st.empty[m] THEN "BufferEmptinessDiffers"
  ELSE IF Len(o.q) # Len(st.q) THEN "DisplayedCueQueueLengthDiffers"
  ELSE IF \E k \in 1..Len(st.q) : ~TimeIs(o.q[k], st.q[k], drop) THEN "DisplayedCueStartDiffers"
  ELSE IF Len(o.stash) # Len(st.stash) THEN "StoredCaptionCountDiffers"
  ELSE IF \E k \in 1..Len(st.stash) : ~TimeIs(o.stash[k][1], st.stash[k].s, drop) THEN "StoredCaptionStartDiffers"
  ELSE IF \E k \in 1..Len(st.stash) : ~TimeIs(o.stash[k][2], st.stash[k].e, drop) THEN "StoredCaptionEndDiffers"
  ELSE IF ~TimeIs(o.time, st.time, drop) THEN "ReaderTimeDiffers"
  ELSE IF o.frames # st.frames THEN "FrameCounterDiffers"
  ELSE IF o.last # st.lc.last THEN "LastCommandDiffers"
  ELSE IF o.dstart # st.dstart THEN "DoubleStarterDiffers"
  ELSE IF o.rows # st.rows THEN "RollRowsExpectedDiffers"
  ELSE "ok"

\* captions a store made by this step creates = growth of the logged stash
Grow(st, o) == IF Len(o.stash) > Len(st.stash) THEN Len(o.stash) - Len(st.stash) ELSE 1

RECURSIVE Replay(_, _, _, _)
Replay(st, evs, k, drop) ==
  IF k > Len(evs) THEN "ok"
  ELSE LET e == evs[k] IN
    IF e.k = "line" THEN Replay(R!Line(st, e.f), evs, k + 1, drop)
    ELSE IF e.k = "word" THEN
      LET r == R!Step(st, e.w, e.c, Grow(st, e.obs), e.obs.empty[st.mode], J)
          v == IF r.skip # e.obs.skipped THEN "DoubledCodeDecisionDiffers" ELSE Compare(r.st, e.obs, drop) IN
      IF v # "ok" THEN v \o "@" \o ToString(k) \o ":" \o e.c ELSE Replay(r.st, evs, k + 1, drop)
    ELSE IF e.k = "end" THEN
      LET s2 == R!End(st, Grow(st, e.obs), J)
          v == Compare(s2, e.obs, drop) IN
      IF v # "ok" THEN v \o "@" \o ToString(k) \o ":end" ELSE Replay(s2, evs, k + 1, drop)
    ELSE "UnknownEvent@" \o ToString(k)

VerdictReader(rec) ==
  IF ~rec.logged THEN "HookDidNotLog"
  ELSE Replay(R!Init0, rec.events, 1, rec.drop)

VARIABLE i
Init == i \in 1..Len(Cases)
Next == /\ i > 0
        /\ LET v == VerdictReader(Cases[i]) IN
           IF v = "ok" THEN TRUE ELSE PrintT("REJECT " \o Cases[i].id \o " " \o v)
        /\ i' = 0
Spec == Init /\ [][Next]_i
=============================================================================
