------------------------------ MODULE Geometry ------------------------------
(***************************************************************************)
(* pycaption.geometry as values (C18) and the relativize / fit-to-screen    *)
(* arithmetic (C13).                                                         *)
(*                                                                          *)
(* A Size is [n |-> BigNat, d |-> BigNat (>0), u |-> unit]: the rational    *)
(* n/d.  Equality of sizes is equality of the rationals and of the units.   *)
(***************************************************************************)
EXTENDS Naturals, Integers, Sequences, BigNat, TLC

Units == {"px", "em", "%", "c", "pt"}

-----------------------------------------------------------------------------
(* 1. The size grammar: digit+ ('.' digit+)? unit  |  "0"                    *)
(* symbols: "0" "5" "." "+" "-" "e" "p" "x" "m" "t" "c" "%" " "               *)

Sym == {"0", "5", ".", "+", "-", "e", "p", "x", "m", "t", "c", "%", " "}
Digits10 == <<"0", "1", "2", "3", "4", "5", "6", "7", "8", "9">>
IsDigit(x) == \E k \in 1..10 : Digits10[k] = x

\* --- declarative reading: the unique decomposition sign . d1 . dot . d2 . unit
RECURSIVE DigitRun(_, _)
DigitRun(s, p) == IF p <= Len(s) /\ IsDigit(s[p]) THEN 1 + DigitRun(s, p + 1) ELSE 0

UnitOf(t) == IF t = <<"p", "x">> THEN "px" ELSE IF t = <<"e", "m">> THEN "em"
             ELSE IF t = <<"%">> THEN "%" ELSE IF t = <<"c">> THEN "c"
             ELSE IF t = <<"p", "t">> THEN "pt" ELSE IF t = <<>> THEN "none" ELSE "bad"

Decompose(s) ==
  LET sg  == IF s # <<>> /\ s[1] \in {"+", "-"} THEN s[1] ELSE "none"
      p1  == IF sg = "none" THEN 1 ELSE 2
      n1  == DigitRun(s, p1)
      dot == p1 + n1 <= Len(s) /\ s[p1 + n1] = "."
      p2  == IF dot THEN p1 + n1 + 1 ELSE p1 + n1
      n2  == IF dot THEN DigitRun(s, p2) ELSE 0
      u   == UnitOf(SubSeq(s, p2 + n2, Len(s)))
  IN [sign |-> sg, d1 |-> SubSeq(s, p1, p1 + n1 - 1), dot |-> dot,
      d2 |-> SubSeq(s, p2, p2 + n2 - 1), unit |-> u,
      wf |-> (u # "bad" /\ n1 + n2 > 0)]

AllZero(ds) == \A k \in 1..Len(ds) : ds[k] = "0"

\* "accept" | "reject" | "dontcare"   (dontcare: the statement does not settle it)
Classify(s) ==
  LET D == Decompose(s) IN
  IF s = <<"0">> THEN "accept"
  ELSE IF ~D.wf THEN "reject"
  ELSE IF D.sign = "none" /\ D.d1 # <<>> /\ (D.dot => D.d2 # <<>>) /\ D.unit # "none" THEN "accept"
  \* "accepts exactly ... and rejects everything else": the language is crisp.  A sign, a missing
  \* integer or fraction part around the dot ("5.px", ".5px"), a zero other than the bare "0"
  \* without unit - all of it is "everything else".  (Earlier these near-misses were left
  \* unsettled; a seeded change that began to accept "5.px" went unnoticed because of that.)
  ELSE "reject"

DigitVal(x) == (CHOOSE k \in 1..10 : Digits10[k] = x) - 1
RECURSIVE DigitsNat(_)
DigitsNat(ds) == IF ds = <<>> THEN <<>> ELSE <<DigitVal(Head(ds))>> \o DigitsNat(Tail(ds))
\* the value an accepted string denotes, as n/d
Denoted(s) == LET D == Decompose(s) IN
  [n |-> FromDigits(DigitsNat(D.d1 \o D.d2)), d |-> Pow10Limb(Len(D.d2)),
   u |-> IF s = <<"0">> THEN "any" ELSE D.unit]

\* --- the same language as an explicit DFA (design model of the anchored regex)
\* states: "start" "int" "dot" "frac" "p" "e" "unit" "rej"; plus a flag for the lone 0
DStep(q, x) ==
  CASE q = "start" -> IF IsDigit(x) THEN "int" ELSE "rej"
    [] q = "int"   -> IF IsDigit(x) THEN "int" ELSE IF x = "." THEN "dot"
                      ELSE IF x = "p" THEN "p" ELSE IF x = "e" THEN "e"
                      ELSE IF x \in {"%", "c"} THEN "unit" ELSE "rej"
    [] q = "dot"   -> IF IsDigit(x) THEN "frac" ELSE "rej"
    [] q = "frac"  -> IF IsDigit(x) THEN "frac"
                      ELSE IF x = "p" THEN "p" ELSE IF x = "e" THEN "e"
                      ELSE IF x \in {"%", "c"} THEN "unit" ELSE "rej"
    [] q = "p"     -> IF x \in {"x", "t"} THEN "unit" ELSE "rej"
    [] q = "e"     -> IF x = "m" THEN "unit" ELSE "rej"
    [] q = "unit"  -> "rej"
    [] OTHER       -> "rej"
RECURSIVE DRun(_, _)
DRun(q, s) == IF s = <<>> THEN q ELSE DRun(DStep(q, Head(s)), Tail(s))
DfaAccepts(s) == s = <<"0">> \/ DRun("start", s) = "unit"

\* --- verdict for one observed parse
\* rec.s : symbols;  rec.o : "ok" | "syntax" | "other:<Type>";  rec.v = [n, d, u] when ok
RatEq(n1, d1, n2, d2) == Mul(n1, d2) = Mul(n2, d1)
\* a parsed size is a binary floating point number: the nearest double to the
\* denoted decimal, i.e. relative error at most 2^-53; 2^-50 is demanded
Pow2_50 == Mul(FromSmall(1048576), Mul(FromSmall(1048576), FromSmall(1024)))
RatClose(n1, d1, n2, d2) ==
  LET x == Mul(n1, d2)  y == Mul(n2, d1)
      diff == IF Leq(y, x) THEN Sub(x, y) ELSE Sub(y, x)
  IN Leq(Mul(diff, Pow2_50), y)
VerdictParse(rec) ==
  LET c == Classify(rec.s) IN
  IF c = "accept" THEN
     IF rec.o # "ok" THEN "ValidSizeRefused"
     ELSE LET e == Denoted(rec.s) IN
          IF ~RatClose(rec.v.n, rec.v.d, e.n, e.d) THEN "ParsedValueWrong"
          ELSE IF e.u # "any" /\ rec.v.u # e.u THEN "ParsedUnitWrong" ELSE "ok"
  ELSE IF c = "reject" THEN
     IF rec.o = "ok" THEN "InvalidSizeAccepted"
     ELSE IF rec.o # "syntax" THEN "InvalidSizeWrongError" ELSE "ok"
  ELSE IF rec.o \in {"ok", "syntax"} THEN "ok" ELSE "InvalidSizeWrongError"

-----------------------------------------------------------------------------
(* 2. Values: equality and hashing *)
(* An abstract value is a record with field cls in                           *)
(*   "size" [n,d,u]  "point" [x,y]  "stretch" [h,v]  "padding" [b,a,s,e]      *)
(*   "align" [h,v]   "layout" [o,e,p,a]; an absent part is [cls |-> "none"]     *)

SizeEq(a, b) == a.u = b.u /\ RatEq(a.n, a.d, b.n, b.d)
\* a Padding always defines its four parts: a missing part is 0%
ZeroPct == [cls |-> "size", n |-> <<>>, d |-> <<1>>, u |-> "%"]
PadPart(x) == IF x.cls = "none" THEN ZeroPct ELSE x
RECURSIVE ValEq(_, _)
ValEq(a, b) ==
  IF a.cls = "none" \/ b.cls = "none" THEN a.cls = b.cls
  ELSE IF a.cls # b.cls THEN FALSE
  ELSE CASE a.cls = "size"    -> SizeEq(a, b)
         [] a.cls = "point"   -> ValEq(a.x, b.x) /\ ValEq(a.y, b.y)
         [] a.cls = "stretch" -> ValEq(a.h, b.h) /\ ValEq(a.v, b.v)
         [] a.cls = "padding" -> /\ ValEq(PadPart(a.b), PadPart(b.b)) /\ ValEq(PadPart(a.a), PadPart(b.a))
                                 /\ ValEq(PadPart(a.s), PadPart(b.s)) /\ ValEq(PadPart(a.e), PadPart(b.e))
         [] a.cls = "align"   -> a.h = b.h /\ a.v = b.v
         [] a.cls = "layout"  -> ValEq(a.o, b.o) /\ ValEq(a.e, b.e) /\ ValEq(a.p, b.p) /\ ValEq(a.a, b.a)

\* rec.a, rec.b abstract values; rec.eq, rec.ne : truth of a == b, a != b;
\* rec.heq : hash(a) = hash(b); rec.sym : truth of b == a
VerdictPair(rec) ==
  LET e == ValEq(rec.a, rec.b) IN
  IF rec.eq # e THEN (IF e THEN "EqualValuesCompareUnequal" ELSE "DifferentValuesCompareEqual")
  ELSE IF rec.sym # e THEN "EqualityNotSymmetric"
  ELSE IF rec.ne # ~e THEN "NotEqualDisagreesWithEqual"
  ELSE IF e /\ ~rec.heq THEN "EqualValuesHashDifferently"
  ELSE "ok"

-----------------------------------------------------------------------------
(* 3. Printing: at most two decimals, within half a hundredth; stable        *)
(* rec.v = [n, d] exact value;  rec.ip, rec.fp : printed integer / fraction  *)
(* digits (numbers 0..9);  rec.u, rec.pu : unit and printed unit;             *)
(* rec.plain : the printed text is exactly digits [. digits] unit             *)
(* rec.again : printing the re-parsed printed text gives the same text        *)

RECURSIVE PadRight(_, _)
PadRight(ds, n) == IF Len(ds) >= n THEN ds ELSE PadRight(Append(ds, 0), n)
\* printed value times 100 (fraction has at most two digits)
Hundredths(ip, fp) == FromDigits(ip \o PadRight(fp, 2))
\* | P/100 - n/d | <= 1/200   <=>   2 | P d - 100 n | <= d
WithinHalfHundredth(P, n, d) ==
  LET x == Mul(P, d)  y == MulSmall(n, 100)
      diff == IF Leq(y, x) THEN Sub(x, y) ELSE Sub(y, x)
  IN Leq(MulSmall(diff, 2), d)

VerdictPrint(rec) ==
  IF ~rec.plain THEN "PrintedNotPlainDecimal"
  ELSE IF Len(rec.fp) > 2 THEN "PrintedMoreThanTwoDecimals"
  ELSE IF rec.pu # rec.u THEN "PrintedUnitWrong"
  ELSE IF ~WithinHalfHundredth(Hundredths(rec.ip, rec.fp), rec.v.n, rec.v.d) THEN "PrintedNotRounded"
  ELSE IF ~rec.again THEN "ReparseOfPrintedValueDiffers"
  ELSE "ok"

-----------------------------------------------------------------------------
(* 4. Padding shorthand, TTML order (before, end, after, start)               *)
(* rec.sizes : 1..4 abstract sizes;  rec.obs = [b, a, s, e] abstract sizes     *)
Expand(z) ==
  CASE Len(z) = 1 -> [b |-> z[1], e |-> z[1], a |-> z[1], s |-> z[1]]
    [] Len(z) = 2 -> [b |-> z[1], a |-> z[1], s |-> z[2], e |-> z[2]]
    [] Len(z) = 3 -> [b |-> z[1], s |-> z[2], e |-> z[2], a |-> z[3]]
    [] Len(z) = 4 -> [b |-> z[1], e |-> z[2], a |-> z[3], s |-> z[4]]
VerdictPadding(rec) ==
  IF Len(rec.sizes) \notin 1..4 THEN (IF rec.o = "ok" THEN "PaddingArityAccepted" ELSE "ok")
  ELSE IF rec.o # "ok" THEN "PaddingShorthandRefused"
  ELSE LET x == Expand(rec.sizes) IN
       IF SizeEq(rec.obs.b, x.b) /\ SizeEq(rec.obs.a, x.a) /\ SizeEq(rec.obs.s, x.s) /\ SizeEq(rec.obs.e, x.e)
       THEN "ok" ELSE "PaddingShorthandOrder"

\* receiver unchanged by as_percentage_of / fit_to_screen: rec.before / rec.after
\* are the serialised receiver; rec.fresh: the result is a different object or the
\* operation is the identity on it
\* rec.outs : what relativizing (against 640 x 360) and then fitting the relativized value gave:
\* "value" or "raise:<type>"; both are stated to return a value for every layout
VerdictImmut(rec) == IF rec.before # rec.after THEN "ReceiverModified"
                     ELSE IF \E k \in 1..Len(rec.outs) : rec.outs[k] # "value" THEN "NoValueReturned"
                     ELSE "ok"
-----------------------------------------------------------------------------
(* 5. Relativization and fit-to-screen (C13)                                 *)
(* A length is an abstract size [n, d, u]; "absent" parts are               *)
(* [cls |-> "none"].  rec.W / rec.H : [has |-> BOOLEAN, v |-> Nat <= 10000]. *)

Q(n, d) == [n |-> n, d |-> d]                       \* the rational n/d, d # <<>>
QLeq(a, b) == Leq(Mul(a.n, b.d), Mul(b.n, a.d))
QSub(a, b) == Q(Sub(Mul(a.n, b.d), Mul(b.n, a.d)), Mul(a.d, b.d))   \* requires b <= a
QAdd(a, b) == Q(Add(Mul(a.n, b.d), Mul(b.n, a.d)), Mul(a.d, b.d))
QInt(k) == Q(FromSmall(k), <<1>>)

\* the dimension a length on `axis` is measured against
Dim(axis, rec) == IF axis = "h" THEN rec.W ELSE rec.H
NeedsDim(sz) == sz.u \in {"px", "em", "pt"}
\* percentage a length denotes once relativized (requires the dimension when NeedsDim)
RelPct(sz, axis, rec) ==
  LET dim == Dim(axis, rec).v IN
  CASE sz.u = "%"  -> Q(sz.n, sz.d)
    [] sz.u = "px" -> Q(MulSmall(sz.n, 100), MulSmall(sz.d, dim))
    [] sz.u = "em" -> Q(MulSmall(sz.n, 1600), MulSmall(sz.d, dim))
    [] sz.u = "pt" -> Q(MulSmall(sz.n, 400), MulSmall(MulSmall(sz.d, 3), dim))
    [] sz.u = "c"  -> Q(MulSmall(sz.n, 100), MulSmall(sz.d, IF axis = "h" THEN 32 ELSE 15))

\* the eight lengths of a layout with their axes: <<part, axis, size>>
Has(x) == x.cls # "none"
Lengths(lay) ==
  (IF Has(lay.o) THEN <<<<"ox", "h", lay.o.x>>, <<"oy", "v", lay.o.y>>>> ELSE <<>>) \o
  (IF Has(lay.e) THEN <<<<"eh", "h", lay.e.h>>, <<"ev", "v", lay.e.v>>>> ELSE <<>>) \o
  (IF Has(lay.p) THEN <<<<"pb", "v", lay.p.b>>, <<"pa", "v", lay.p.a>>,
                        <<"ps", "h", lay.p.s>>, <<"pe", "h", lay.p.e>>>> ELSE <<>>)

MustRefuse(rec) == rec.relativize /\ \E k \in 1..Len(Lengths(rec.lay)) :
                     LET l == Lengths(rec.lay)[k] IN NeedsDim(l[3]) /\ ~Dim(l[2], rec).has
MayRefuse(rec) == rec.relativize /\ \E k \in 1..Len(Lengths(rec.lay)) :
                     LET l == Lengths(rec.lay)[k] IN l[3].u # "%" /\ ~Dim(l[2], rec).has
AllPct(rec) == \A k \in 1..Len(Lengths(rec.lay)) : Lengths(rec.lay)[k][3].u = "%"

\* printed token: [ip, fp, pu, plain]  (digits, digits, unit, well-formed) or [cls |-> "none"]
TokOk(t, q) == /\ t.plain /\ Len(t.fp) <= 2 /\ t.pu = "%"
               /\ WithinHalfHundredth(Hundredths(t.ip, t.fp), q.n, q.d)

\* exact percentages after relativization (only used when no dimension is missing)
Pct(part, rec) == LET ls == Lengths(rec.lay)
                      k == CHOOSE j \in 1..Len(ls) : ls[j][1] = part
                  IN RelPct(ls[k][3], ls[k][2], rec)

InSafeArea(rec) == /\ Has(rec.lay.o)
                   /\ QLeq(QInt(10), Pct("ox", rec)) /\ QLeq(Pct("ox", rec), QInt(90))
                   /\ QLeq(QInt(5), Pct("oy", rec)) /\ QLeq(Pct("oy", rec), QInt(95))

\* the extent the statement demands on one axis when fit-to-screen applies:
\* missing -> reach the edge exactly; overflowing -> clamp to the edge; fitting -> unchanged
FitExtent(part, opart, edge, rec) ==
  LET room == QSub(QInt(edge), Pct(opart, rec)) IN
  IF ~Has(rec.lay.e) THEN room
  ELSE IF QLeq(Pct(part, rec), room) THEN Pct(part, rec) ELSE room

\* which written parts a writer exposes: rec.obs has fields ox oy eh ev pb pa ps pe,
\* each a token or [cls |-> "none"] (not written / not observable)
Seen(t) == t.cls # "none"

VerdictRelValues(rec) ==
  LET fitting == rec.fit /\ InSafeArea(rec)
      chk(part, tok) == ~Seen(tok) \/ TokOk(tok, Pct(part, rec))
  IN
  IF Has(rec.lay.o) /\ ~chk("ox", rec.obs.ox) THEN "OriginXNotRelativized"
  ELSE IF Has(rec.lay.o) /\ ~chk("oy", rec.obs.oy) THEN "OriginYNotRelativized"
  ELSE IF Has(rec.lay.p) /\ ~(chk("pb", rec.obs.pb) /\ chk("pa", rec.obs.pa)
                               /\ chk("ps", rec.obs.ps) /\ chk("pe", rec.obs.pe)) THEN "PaddingNotRelativized"
  ELSE IF fitting THEN
       IF rec.sees.eh /\ ~Seen(rec.obs.eh) THEN "FitMissingExtentNotFilled"
       ELSE IF Seen(rec.obs.eh) /\ ~TokOk(rec.obs.eh, FitExtent("eh", "ox", 90, rec)) THEN "FitRightEdge"
       ELSE IF Seen(rec.obs.ev) /\ ~TokOk(rec.obs.ev, FitExtent("ev", "oy", 95, rec)) THEN "FitBottomEdge"
       ELSE "ok"
  ELSE IF rec.fit /\ Has(rec.lay.o) THEN "ok"            \* origin outside the safe area: extent not constrained
  ELSE IF Has(rec.lay.e) /\ ~(chk("eh", rec.obs.eh) /\ chk("ev", rec.obs.ev)) THEN "ExtentNotRelativized"
  ELSE IF ~Has(rec.lay.e) /\ (Seen(rec.obs.eh) \/ Seen(rec.obs.ev)) THEN "ExtentInvented"
  ELSE "ok"

\* rec.out : "ok" | "raise:RelativizationError" | "raise:<Other>"
\* rec.abs : the output contains a non-percentage length (WebVTT only)
\* WebVTT folds paddings into position / line / size (C12's arithmetic): for a WebVTT
\* layout with padding only the refusal and no-absolute-length clauses are judged here
VerdictRel(rec) ==
  IF rec.relativize THEN
     IF rec.out = "raise:RelativizationError" THEN
        (IF MustRefuse(rec) \/ MayRefuse(rec) THEN "ok" ELSE "RefusedAlthoughDimensionsSupplied")
     ELSE IF rec.out # "ok" THEN "WrongErrorType"
     ELSE IF MustRefuse(rec) THEN "MissingDimensionNotRefused"
     ELSE IF rec.writer = "WebVTT" /\ rec.abs THEN "WebVTTAbsoluteLength"
     ELSE IF rec.writer = "WebVTT" /\ Has(rec.lay.p) THEN "ok"
     ELSE VerdictRelValues(rec)
  ELSE IF AllPct(rec) THEN
     IF rec.out # "ok" THEN "UnexpectedError"
     ELSE IF rec.writer = "WebVTT" /\ Has(rec.lay.p) THEN "ok"
     ELSE VerdictRelValues(rec)
  \* absolute lengths, relativization switched off: only WebVTT is constrained
  ELSE IF rec.writer = "WebVTT" /\ rec.out = "ok" /\ rec.abs THEN "WebVTTAbsoluteLength"
  ELSE "ok"

\* Known deviations of DFXPWriter for a layout attached at language level
\* (known_findings.json KF-C13-1 / KF-C13-2).  A rejected record of that class is
\* re-validated against the requirement with exactly that deviation enabled:
\*   "nofit": the layout is relativized but fit-to-screen is not applied
\*   "raw"  : the layout is written as given (neither relativized nor fitted)
TokOwn(t, sz) == /\ t.plain /\ Len(t.fp) <= 2 /\ t.pu = sz.u
                 /\ WithinHalfHundredth(Hundredths(t.ip, t.fp), sz.n, sz.d)
RawVerdict(rec) ==
  LET ls == Lengths(rec.lay) IN
  IF rec.out # "ok" THEN "DeviationRawButRaised"
  ELSE IF \E k \in 1..Len(ls) : ~(Seen(rec.obs[ls[k][1]]) /\ TokOwn(rec.obs[ls[k][1]], ls[k][3]))
       THEN "DeviationRawValueChanged"
  ELSE IF ~Has(rec.lay.e) /\ (Seen(rec.obs.eh) \/ Seen(rec.obs.ev)) THEN "DeviationRawExtentInvented"
  ELSE "ok"
\* both deviations have one root (a language-level layout bypasses _relativize_and_fit_to_screen), so a
\* layout that mixes percentages with absolute lengths shows both at once: whichever clause came
\* first, such a record is explained exactly when the layout is written as given
VerdictRelDev(rec) ==
  IF rec.dev = "nofit" THEN (IF VerdictRel([rec EXCEPT !.fit = FALSE]) = "ok" THEN "ok" ELSE RawVerdict(rec))
  ELSE IF rec.dev = "raw" THEN RawVerdict(rec)
  ELSE "UnknownDeviation"

\* ---- design model of the code path: as_percentage_of, fit_to_screen, two-decimal print
\* floor(a / b) for quotients below 10^7, b # 0 (digit-by-digit, base 10)
RECURSIVE DivDigits(_, _, _, _)
DivDigits(a, b, k, acc) ==
  IF k < 0 THEN acc
  ELSE LET step == MulPow10(<<1>>, k)
           RECURSIVE Pick(_)
           Pick(c) == IF c > 0 /\ ~Leq(Mul(Add(acc, MulSmall(step, c)), b), a) THEN Pick(c - 1) ELSE c
       IN DivDigits(a, b, k - 1, Add(acc, MulSmall(step, Pick(9))))
DivFloor(a, b) == DivDigits(a, b, 6, <<>>)
\* round half up to hundredths: floor((200 n + d) / (2 d))
RoundHundredths(q) == ToSmall(DivFloor(Add(MulSmall(q.n, 200), q.d), MulSmall(q.d, 2)))

RECURSIVE NatDigits(_)
NatDigits(k) == IF k < 10 THEN <<k>> ELSE Append(NatDigits(k \div 10), k % 10)
ModelTok(q) ==
  LET P == RoundHundredths(q)
      f == P % 100
  IN [cls |-> "tok", ip |-> NatDigits(P \div 100),
      fp |-> IF f = 0 THEN <<>> ELSE IF f % 10 = 0 THEN <<f \div 10>> ELSE <<f \div 10, f % 10>>,
      pu |-> "%", plain |-> TRUE]
NoTok == [cls |-> "none"]

\* c: [lay, W, H, relativize, fit, writer]; the record the code path would produce
ModelRecord(c) ==
  LET base == [k |-> "rel", lay |-> c.lay, W |-> c.W, H |-> c.H, relativize |-> c.relativize,
               fit |-> c.fit, writer |-> c.writer, abs |-> FALSE,
               sees |-> [eh |-> c.writer # "SAMI"]]
      none8 == [ox |-> NoTok, oy |-> NoTok, eh |-> NoTok, ev |-> NoTok,
                pb |-> NoTok, pa |-> NoTok, ps |-> NoTok, pe |-> NoTok]
  IN
  IF c.relativize /\ MayRefuse(base @@ [out |-> "ok", obs |-> none8])
     THEN base @@ [out |-> "raise:RelativizationError", obs |-> none8]
  ELSE IF ~c.relativize /\ ~AllPct(base @@ [out |-> "ok", obs |-> none8])
     THEN base @@ [out |-> "ok", obs |-> none8]                    \* absolute values written through: not modelled
  ELSE
   LET r == base @@ [out |-> "ok", obs |-> none8]
       tok(part) == ModelTok(Pct(part, r))
       canfit == c.fit /\ Has(c.lay.o) /\ QLeq(Pct("ox", r), QInt(90)) /\ QLeq(Pct("oy", r), QInt(95))
       eh == IF canfit THEN ModelTok(FitExtent("eh", "ox", 90, r))
             ELSE IF Has(c.lay.e) THEN tok("eh") ELSE NoTok
       ev == IF canfit THEN ModelTok(FitExtent("ev", "oy", 95, r))
             ELSE IF Has(c.lay.e) THEN tok("ev") ELSE NoTok
       dfxp == c.writer = "DFXP"
   IN base @@ [out |-> "ok", obs |->
        [ox |-> IF Has(c.lay.o) /\ c.writer # "SAMI" THEN tok("ox") ELSE NoTok,
         oy |-> IF Has(c.lay.o) /\ c.writer # "SAMI" THEN tok("oy") ELSE NoTok,
         eh |-> IF c.writer = "SAMI" THEN NoTok ELSE eh,
         ev |-> IF dfxp THEN ev ELSE NoTok,
         pb |-> IF Has(c.lay.p) /\ c.writer # "WebVTT" THEN tok("pb") ELSE NoTok,
         pa |-> IF Has(c.lay.p) /\ c.writer # "WebVTT" THEN tok("pa") ELSE NoTok,
         ps |-> IF Has(c.lay.p) /\ c.writer # "WebVTT" THEN tok("ps") ELSE NoTok,
         pe |-> IF Has(c.lay.p) /\ c.writer # "WebVTT" THEN tok("pe") ELSE NoTok]]

=============================================================================
