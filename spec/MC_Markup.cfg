SPECIFICATION Spec
CONSTANTS
  MaxLen = 5
  Emit = TRUE
INVARIANT WriterModelsMeetRequirement
INVARIANT InputBalanced
INVARIANT EmitCase
CHECK_DEADLOCK FALSE
