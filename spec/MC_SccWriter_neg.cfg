SPECIFICATION Spec
CONSTANTS
  MaxCaps = 3
  PreRollFirst = FALSE
INVARIANT ScheduleMeetsRequirement
CHECK_DEADLOCK FALSE
