SPECIFICATION Spec
CONSTANTS
  MaxEvents = 8
  FlushOnSwitch = TRUE
INVARIANT Conservation
INVARIANT NoEmptyCaption
INVARIANT Continuity
CHECK_DEADLOCK FALSE
