SPECIFICATION Spec
CONSTANTS
  MaxOps = 3
  MaxSets = 2
  SharedDefaultStyles = FALSE
  ReaderKeepsStash = TRUE
  SpanFlagSurvives = FALSE
  Emit = FALSE
INVARIANT Isolation
INVARIANT OutputsAreFunctions
INVARIANT EmitCase
CHECK_DEADLOCK FALSE
