-------------------------------- MODULE Chain --------------------------------
(***************************************************************************)
(* Conversion chains (C08): write in one format, read back with pycaption's *)
(* own reader, repeatedly.  The abstraction of a hop is the truncation of   *)
(* C01 / C02 and the text normalisation of C03 / C04.                       *)
(***************************************************************************)
EXTENDS Naturals, Integers, Sequences, BigNat, TextCodec

Formats == {"SRT", "WebVTT", "DFXP", "SAMI", "MicroDVD"}
\* resolution lattice: 0 microsecond < 1 millisecond < 2 frame at 25 fps
Res(f) == IF f = "MicroDVD" THEN 2 ELSE 1
Max2(a, b) == IF a >= b THEN a ELSE b

Trunc(r, t) == CASE r = 0 -> t
                 [] r = 1 -> MulSmall(DivSmall(t, 1000), 1000)
                 [] r = 2 -> MulSmall(DivSmall(t, 40000), 40000)
FourSeconds == <<0, 400>>

\* resolution and "SAMI seen" after the first j hops of chain (two passes = chain twice)
RECURSIVE ResAfter(_, _)
ResAfter(chain, j) == IF j = 0 THEN 0 ELSE Max2(ResAfter(chain, j - 1), Res(chain[j]))
SamiBy(chain, j) == \E k \in 1..j : chain[k] = "SAMI"

\* expected cue list of one language after j hops
ExpectLang(cues, chain, j) ==
  LET r == ResAfter(chain, j) IN
  [k \in 1..Len(cues) |->
     [s |-> Trunc(r, cues[k].s),
      e |-> IF SamiBy(chain, j) /\ k = Len(cues) THEN Add(Trunc(r, cues[k].s), FourSeconds)
            ELSE Trunc(r, cues[k].e),
      lines |-> NormLines(cues[k].lines, TRUE)]]

\* rec.chain : formats of ONE pass; rec.langs : original cue lists per language
\* rec.hops  : observations after each hop of pass 1 then pass 2:
\*             [ok, langs] with langs[l][k] = [s, e (BigInt-style [int, v]), lines]
ObsOk(o, want) ==
  /\ o.s.int /\ o.e.int /\ o.s.v = MkInt(1, want.s) /\ o.e.v = MkInt(1, want.e)
  /\ NormLines(o.lines, TRUE) = want.lines

HopVerdict(rec, j, full) ==
  LET h == rec.hops[j]
      name == full[j]
  IN
  IF ~h.ok THEN "HopFailed"
  ELSE IF Len(h.langs) # Len(rec.langs) THEN "LanguageLostOrAdded"
  ELSE IF \E l \in 1..Len(rec.langs) : Len(h.langs[l]) # Len(rec.langs[l]) THEN "CueCountChanged"
  ELSE IF \E l \in 1..Len(rec.langs) : \E k \in 1..Len(rec.langs[l]) :
            NormLines(h.langs[l][k].lines, TRUE) # NormLines(rec.langs[l][k].lines, TRUE) THEN "TextChanged"
  ELSE IF \E l \in 1..Len(rec.langs) : \E k \in 1..Len(rec.langs[l]) :
            ~ObsOk(h.langs[l][k], ExpectLang(rec.langs[l], full, j)[k]) THEN "TimesNotTruncatedToChainResolution"
  ELSE "ok"

RECURSIVE FirstBadHop(_, _, _)
FirstBadHop(rec, j, full) ==
  IF j > Len(rec.hops) THEN "ok"
  ELSE LET v == HopVerdict(rec, j, full) IN
       IF v = "ok" THEN FirstBadHop(rec, j + 1, full)
       ELSE v \o "@hop" \o ToString(j) \o ":" \o full[j]

VerdictChain(rec) ==
  LET full == rec.chain \o rec.chain
      n == Len(rec.chain) IN
  IF Len(rec.hops) # 2 * n THEN "MalformedRecord"
  ELSE LET v == FirstBadHop(rec, 1, full) IN
       IF v # "ok" THEN v
       \* second pass changes nothing: the state after pass 2 equals the state after pass 1
       ELSE IF \E l \in 1..Len(rec.langs) : \E k \in 1..Len(rec.langs[l]) :
                 LET p == rec.hops[n].langs[l][k]  q == rec.hops[2 * n].langs[l][k] IN
                 p.s # q.s \/ p.e # q.e \/ NormLines(p.lines, TRUE) # NormLines(q.lines, TRUE)
            THEN "SecondPassDrift"
       ELSE "ok"

=============================================================================
