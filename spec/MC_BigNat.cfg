SPECIFICATION Spec
INVARIANT Inv0
INVARIANT Inv1
INVARIANT Inv2
INVARIANT Inv3
INVARIANT Inv4
INVARIANT Inv5
INVARIANT Inv6
INVARIANT Inv7
INVARIANT Inv8
INVARIANT Inv9
INVARIANT Inv10
INVARIANT Inv11
INVARIANT Inv12
INVARIANT Inv13
INVARIANT Inv14
INVARIANT Inv15
INVARIANT Inv16
CHECK_DEADLOCK FALSE
