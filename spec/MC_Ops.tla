------------------------------- MODULE MC_Ops -------------------------------
(* All caption lists up to MaxLen with time keys from Keys: the loop of      *)
(* merge_concurrent_captions, stepped as a state machine, ends in the closed *)
(* form; merging is idempotent; every list is emitted for replay.            *)
EXTENDS Ops, Json, TLC
CONSTANTS MaxLen, Emit
Keys == {"A", "B"}

VARIABLES lst, st, phase
vars == <<lst, st, phase>>
\* caption k of the list carries the two node ids 2k-1, 2k
Cap(k, t) == [t |-> t, n |-> <<2 * k - 1, 2 * k>>]

Init == lst = <<>> /\ st = LoopInit(<<>>) /\ phase = "grow"
Grow == /\ phase = "grow" /\ Len(lst) < MaxLen
        /\ \E t \in Keys : lst' = Append(lst, Cap(Len(lst) + 1, t))
        /\ UNCHANGED <<st, phase>>
Start == /\ phase = "grow"
         /\ phase' = "run" /\ st' = LoopInit(lst) /\ UNCHANGED lst
Step == /\ phase = "run" /\ st.pc # "done"
        /\ st' = LoopStep(st) /\ UNCHANGED <<lst, phase>>
Next == Grow \/ Start \/ Step
Spec == Init /\ [][Next]_vars

LoopMeetsClosedForm == (phase = "run" /\ st.pc = "done") => st.merged = MergeRuns(lst)
Idempotent == MergeRuns(MergeRuns(lst)) = MergeRuns(lst)
\* nothing is lost: the multiset of positive ids is preserved in order
RECURSIVE Flat(_)
Flat(l) == IF l = <<>> THEN <<>> ELSE Head(l).n \o Flat(Tail(l))
Conserves == SelectSeq(Flat(MergeRuns(lst)), LAMBDA x : x > 0) = Flat(lst)
\* requirement accepts the model's own output (sanity of the Verdict operator)
VerdictAcceptsModel ==
  Verdict([kind |-> "merge", langs |-> <<[in |-> lst, out |-> MergeRuns(lst), out2 |-> MergeRuns(MergeRuns(lst))]>>]) = "ok"
EmitCase == IF Emit /\ phase = "grow" THEN PrintT("CASE " \o ToJson([keys |-> [k \in 1..Len(lst) |-> lst[k].t]])) ELSE TRUE
=============================================================================
