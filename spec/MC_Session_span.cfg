SPECIFICATION Spec
CONSTANTS
  MaxOps = 3
  MaxSets = 2
  SharedDefaultStyles = FALSE
  ReaderKeepsStash = FALSE
  SpanFlagSurvives = TRUE
  Emit = FALSE
INVARIANT Isolation
INVARIANT OutputsAreFunctions
INVARIANT EmitCase
CHECK_DEADLOCK FALSE
