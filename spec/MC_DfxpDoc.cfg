SPECIFICATION Spec
CONSTANTS
  Emit = TRUE
INVARIANT ModelMeetsRequirement
INVARIANT EmitCase
CHECK_DEADLOCK FALSE
