SPECIFICATION Spec
CONSTANTS
  MaxLen = 2
  SrtGuard = FALSE
  Emit = FALSE
INVARIANT ModelMeetsRequirement
INVARIANT EmitCase
CHECK_DEADLOCK FALSE
