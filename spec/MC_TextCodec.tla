---------------------------- MODULE MC_TextCodec ----------------------------
(* Every text of up to MaxTok tokens (MaxLines lines) over the metacharacter *)
(* alphabet: the escapers' design models composed with the reference         *)
(* decoders are the identity, the WebVTT encoding never contains the cue     *)
(* terminator, and each text is emitted for replay through the real writers. *)
EXTENDS TextCodec, Json
CONSTANTS MaxTok, MaxLines, Emit

\* token index -> code points; the harness renders the same table
Tok == << <<97>>, <<49>>, <<SP>>, <<AMP>>, <<LT>>, <<GT>>, <<34>>, <<39>>, <<DASH>>, <<PIPE>>,
          <<123>>, <<125>>, <<SEMI>>, <<HASH>>, <<LowerX>>, <<58>>, <<44>>, <<93>>, <<33>>, <<47>>,
          <<108, 116>>, <<97, 109, 112>>, <<103, 116>>, <<110, 98, 115, 112>>, <<105>>, <<98, 114>> >>
NTok == Len(Tok)

VARIABLES lines, cur       \* finished lines (token index sequences), current line
Init == lines = <<>> /\ cur = <<>>
Total == Len(cur) + (IF lines = <<>> THEN 0 ELSE Len(lines[1]) + (IF Len(lines) > 1 THEN Len(lines[2]) ELSE 0)
                                                 + (IF Len(lines) > 2 THEN Len(lines[3]) ELSE 0))
Add == /\ Total < MaxTok
       /\ \E t \in 1..NTok : cur' = Append(cur, t)
       /\ UNCHANGED lines
Brk == /\ Len(lines) + 1 < MaxLines
       /\ lines' = Append(lines, cur) /\ cur' = <<>>
Next == Add \/ Brk
Spec == Init /\ [][Next]_<<lines, cur>>

RECURSIVE Cps(_)
Cps(ts) == IF ts = <<>> THEN <<>> ELSE Tok[Head(ts)] \o Cps(Tail(ts))
All == Append(lines, cur)
Text == [k \in 1..Len(All) |-> Cps(All[k])]

XmlRoundTrip == \A k \in 1..Len(Text) : DecodeXml(EncodeXml(Text[k])) = Text[k]
VttRoundTrip == \A k \in 1..Len(Text) : DecodeVtt(EncodeVtt(Text[k])) = Text[k]
VttNoTerminator == \A k \in 1..Len(Text) : ~ContainsArrow(EncodeVtt(Text[k]))
EmitCase == IF Emit /\ (\E k \in 1..Len(All) : All[k] # <<>>)
            THEN PrintT("CASE " \o ToJson([lines |-> All])) ELSE TRUE
=============================================================================
