SPECIFICATION Spec
CONSTANTS
  Emit = TRUE
INVARIANT ReferenceSane
INVARIANT EmitCase
CHECK_DEADLOCK FALSE
