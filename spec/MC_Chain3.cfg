SPECIFICATION Spec
CONSTANTS
  MaxLen = 3
  Emit = TRUE
INVARIANT ClosedForm
INVARIANT SecondPassIdentity
INVARIANT EmitCase
CHECK_DEADLOCK FALSE
