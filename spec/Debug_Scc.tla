------------------------------ MODULE Debug_Scc ------------------------------
(* prints what the reference decoder expects for each record of TRACE_FILE *)
EXTENDS Scc608, Json, IOUtils
Cases == ndJsonDeserialize(IOEnv.TRACE_FILE)
Show(cap) == [row |-> cap.row, col |-> cap.col,
              lines |-> [j \in 1..Len(cap.lines) |-> [k \in 1..Len(cap.lines[j]) |-> <<cap.lines[j][k].ch, cap.lines[j][k].it>>]]]
VARIABLE i
Init == i \in 1..Len(Cases)
Next == /\ i > 0
        /\ LET e == ExpectCaps(Run(Cases[i].prog).ev) IN
           PrintT("EXPECT " \o ToJson([id |-> Cases[i].id, caps |-> [k \in 1..Len(e) |-> Show(e[k])],
                                       screens |-> Screens(Run(Cases[i].prog).ev, <<>>)]))
        /\ i' = 0
Spec == Init /\ [][Next]_i
=============================================================================
