--------------------------------- MODULE Ops ---------------------------------
(***************************************************************************)
(* CaptionSet.adjust_caption_timing and merge_concurrent_captions (C19).    *)
(*                                                                          *)
(* A caption is [t |-> time key, n |-> sequence of node ids].  A time key   *)
(* is any value compared only for equality (merge) - the harness sends the  *)
(* exact decimal spelling of (start, end).  Node ids are positive integers, *)
(* unique per node object of the input; 0 stands for a BREAK node that is   *)
(* not one of the input's node objects (an inserted separator); -1 for any  *)
(* other foreign node.                                                       *)
(***************************************************************************)
EXTENDS Naturals, Integers, Sequences, BigNat

-----------------------------------------------------------------------------
(* Merge: closed form = the requirement *)

RECURSIVE RunLen(_, _)
RunLen(l, t) == IF l # <<>> /\ Head(l).t = t THEN 1 + RunLen(Tail(l), t) ELSE 0

RECURSIVE JoinBR(_)
JoinBR(run) == IF Len(run) = 1 THEN run[1].n
               ELSE run[1].n \o <<0>> \o JoinBR(Tail(run))

RECURSIVE MergeRuns(_)
MergeRuns(l) ==
  IF l = <<>> THEN <<>>
  ELSE LET k == RunLen(l, l[1].t) IN
       <<[t |-> l[1].t, n |-> JoinBR(SubSeq(l, 1, k))]>> \o MergeRuns(SubSeq(l, k + 1, Len(l)))

\* rec.langs : sequence of [in, out, out2]; out2 = result of merging the result again,
\* projected in the same id space
VerdictMerge(rec) ==
  IF \E k \in 1..Len(rec.langs) : Len(rec.langs[k].out) # Len(MergeRuns(rec.langs[k].in))
     THEN "MergeWrongCaptionCount"
  ELSE IF \E k \in 1..Len(rec.langs) : \E j \in 1..Len(rec.langs[k].out) :
            rec.langs[k].out[j].t # MergeRuns(rec.langs[k].in)[j].t THEN "MergeWrongTimes"
  ELSE IF \E k \in 1..Len(rec.langs) : \E j \in 1..Len(rec.langs[k].out) :
            rec.langs[k].out[j].n # MergeRuns(rec.langs[k].in)[j].n THEN "MergeNodesNotConcatenatedInOrder"
  ELSE IF \E k \in 1..Len(rec.langs) : rec.langs[k].out2 # rec.langs[k].out THEN "MergeNotIdempotent"
  ELSE "ok"

-----------------------------------------------------------------------------
(* Merge: the loop of the code as a state machine (design model) *)
(*   last, conc, merged follow merge_concurrent_captions line by line       *)

LoopInit(l) == [rest |-> l, last |-> <<>>, conc |-> <<>>, merged |-> <<>>, pc |-> "loop"]
MergeOne(cs) == [t |-> cs[1].t, n |-> JoinBR(cs)]
LoopStep(st) ==
  IF st.pc = "loop" THEN
    IF st.rest = <<>> THEN [st EXCEPT !.pc = "after"]
    ELSE LET c == Head(st.rest) IN
      IF st.last # <<>> THEN
         IF c.t = st.last[1].t
            THEN [st EXCEPT !.rest = Tail(st.rest), !.conc = Append(st.conc, c), !.last = <<c>>]
            ELSE [st EXCEPT !.rest = Tail(st.rest), !.merged = Append(st.merged, MergeOne(st.conc)),
                            !.conc = <<c>>, !.last = <<c>>]
      ELSE [st EXCEPT !.rest = Tail(st.rest), !.conc = <<c>>, !.last = <<c>>]
  ELSE IF st.pc = "after" THEN
    IF st.conc # <<>> THEN [st EXCEPT !.merged = Append(st.merged, MergeOne(st.conc)), !.pc = "done"]
    ELSE [st EXCEPT !.pc = "done"]
  ELSE st

-----------------------------------------------------------------------------
(* Adjust *)
(* All times in microseconds.                                                *)
(* rec.p, rec.q : skew = p / q, 1 <= p, q <= 10000                           *)
(* rec.off      : offset, BigInt                                             *)
(* rec.tol      : tolerance in thousandths of a microsecond: 0 when the      *)
(*                result is exactly representable in binary floating point,  *)
(*                1 (one nanosecond) otherwise                               *)
(* rec.langs[k].in  : seq of [id, s, e] with s, e BigNat                     *)
(* rec.langs[k].out : seq of [id, s, e, same]; s, e = [num |-> BigInt,       *)
(*                    den |-> 1..MaxSmall] the observed value num/den;       *)
(*                    same = the caption's node list is untouched            *)

\* q * (t * p / q + off) = t*p + off*q   (exact, scaled by q)
ScaledNew(t, rec) == IAdd(MkInt(1, MulSmall(t, rec.p)), IMulSmall(rec.off, rec.q))
\* |o.num/o.den - new| <= tol/1000   <=>   1000 |o.num*q - ScaledNew*o.den| <= tol*q*o.den
Close(o, t, rec) ==
  LET d == ISub(IMulSmall(o.num, rec.q), IMulSmall(ScaledNew(t, rec), o.den)) IN
  Leq(MulSmall(d.m, 1000), MulSmall(FromSmall(rec.tol * rec.q), o.den))

\* a caption whose new start is negative by more than the tolerance must go, one
\* whose new start is >= 0 must stay; inside the tolerance band either is accepted
MustDrop(c, rec) == LET n == ScaledNew(c.s, rec) IN
                    IIsNeg(n) /\ ~Leq(MulSmall(n.m, 1000), FromSmall(rec.tol * rec.q))
MustKeep(c, rec) == LET n == ScaledNew(c.s, rec) IN
                    ~IIsNeg(n) /\ (rec.tol = 0 \/ ~Leq(MulSmall(n.m, 1000), FromSmall(rec.tol * rec.q)))

RECURSIVE AdjustOk(_, _, _)
AdjustOk(in, out, rec) ==
  IF in = <<>> THEN (IF out = <<>> THEN "ok" ELSE "AdjustInventedCaption")
  ELSE LET c == Head(in) IN
    IF out # <<>> /\ Head(out).id = c.id THEN
       IF MustDrop(c, rec) THEN "AdjustKeptNegativeStart"
       ELSE IF ~Close(Head(out).s, c.s, rec) THEN "AdjustWrongStart"
       ELSE IF ~Close(Head(out).e, c.e, rec) THEN "AdjustWrongEnd"
       ELSE IF ~Head(out).same THEN "AdjustTouchedNodes"
       ELSE AdjustOk(Tail(in), Tail(out), rec)
    ELSE IF MustKeep(c, rec) THEN "AdjustLostOrReorderedCaption"
    ELSE AdjustOk(Tail(in), out, rec)

RECURSIVE FirstBad(_, _)
FirstBad(rec, k) ==
  IF k > Len(rec.langs) THEN "ok"
  ELSE LET v == AdjustOk(rec.langs[k].in, rec.langs[k].out, rec) IN
       IF v = "ok" THEN FirstBad(rec, k + 1) ELSE v
VerdictAdjust(rec) == FirstBad(rec, 1)

\* the two DFXP writers that merge (SinglePositioningDFXPWriter, LegacyDFXPWriter), however they are
\* constructed: rec.langs[k] = [in |-> the language's captions, ps |-> number of <p> in its div]
VerdictMergeWriter(rec) ==
  IF ~rec.ok THEN "MergingWriterFailed"
  ELSE IF Len(rec.divs) # Len(rec.langs) THEN "MergingWriterLanguageCount"
  ELSE IF \E k \in 1..Len(rec.langs) : rec.divs[k] # Len(MergeRuns(rec.langs[k])) THEN "WriterDidNotMergeConcurrentCaptions"
  ELSE "ok"

Verdict(rec) == IF rec.kind = "mergewriter" THEN VerdictMergeWriter(rec) ELSE
                IF rec.kind = "merge" THEN VerdictMerge(rec)
                ELSE IF rec.kind = "adjust" THEN VerdictAdjust(rec)
                ELSE "UnknownRecordKind"
=============================================================================
