SPECIFICATION Spec
CONSTANTS
  MaxTok = 2
  MaxLines = 3
  Emit = TRUE
INVARIANT XmlRoundTrip
INVARIANT VttRoundTrip
INVARIANT VttNoTerminator
INVARIANT EmitCase
CHECK_DEADLOCK FALSE
