---------------------------- MODULE MC_SamiSync ----------------------------
(* SAMIWriter's sync/blank-sync logic for one language as a state machine    *)
(* (last_time, truthiness included) against the blank-sync rule of C02, over *)
(* all lists of up to MaxCues cues on a small millisecond grid that includes *)
(* 0.  Falsy0 = TRUE models `if self.last_time and ...` as found; FALSE the  *)
(* repaired `is not None` test.                                              *)
EXTENDS TimeCodes, TLC
CONSTANTS MaxCues, Falsy0

Grid == {0, 1, 2, 3}                 \* milliseconds
Ms(k) == [n |-> MulSmall(FromSmall(k), 1000), d |-> 1]

VARIABLES caps, out, last, i
vars == <<caps, out, last, i>>
Init == /\ caps \in UNION { [1..k -> {<<a, b>> \in Grid \X Grid : a <= b}] : k \in 0..MaxCues }
        /\ out = <<>> /\ last = -1 /\ i = 1
Sorted == \A k \in 1..(Len(caps) - 1) : caps[k][2] <= caps[k + 1][1]
\* one call of _recreate_p_tag
Step == /\ i <= Len(caps)
        /\ LET t == caps[i][1]
               needBlank == (IF Falsy0 THEN last > 0 ELSE last >= 0) /\ t # last
           IN out' = out \o (IF needBlank THEN <<[ms |-> FromSmall(last), blank |-> TRUE]>> ELSE <<>>)
                         \o <<[ms |-> FromSmall(t), blank |-> FALSE]>>
        /\ last' = caps[i][2]
        /\ i' = i + 1 /\ UNCHANGED caps
Spec == Init /\ [][Step]_vars

AsCaps == [k \in 1..Len(caps) |-> [s |-> Ms(caps[k][1]), e |-> Ms(caps[k][2])]]
BlankSyncRule == (Sorted /\ i = Len(caps) + 1) => out = SamiWant(AsCaps)
=============================================================================
