SPECIFICATION Spec
CONSTANTS
  MaxLen = 6
  Emit = FALSE
INVARIANT DfaMeetsGrammar
INVARIANT DenotedWellFormed
INVARIANT EmitCase
CHECK_DEADLOCK FALSE
