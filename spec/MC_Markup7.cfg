SPECIFICATION Spec
CONSTANTS
  MaxLen = 7
  Emit = TRUE
INVARIANT WriterModelsMeetRequirement
INVARIANT InputBalanced
INVARIANT EmitCase
CHECK_DEADLOCK FALSE
