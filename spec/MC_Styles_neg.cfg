SPECIFICATION Spec
CONSTANTS
  AsFound = TRUE
  Emit = FALSE
INVARIANT ModelMeetsRequirement
INVARIANT EmitCase
CHECK_DEADLOCK FALSE
