SPECIFICATION Spec
CONSTANTS
  MaxCaps = 4
  Overwrites = FALSE
INVARIANT ScanMeetsRequirement
CHECK_DEADLOCK FALSE
