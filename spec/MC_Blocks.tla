------------------------------ MODULE MC_Blocks ------------------------------
(* Every document of up to MaxBlocks blocks (cue with / without identifier and  *)
(* 0..2 payload lines, NOTE blocks, 1..2 blank lines between blocks, 0..2 after   *)
(* the last, header with / without a metadata line): the readers' line loops yield *)
(* exactly the cue blocks' payload.  AsFound = TRUE is the WebVTT loop before      *)
(* commit 62325d3, AsFoundSrt = TRUE the SRT loop as it is (KF-C01-6).             *)
EXTENDS Blocks, Json
CONSTANTS MaxBlocks, AsFound, AsFoundSrt, Emit
VARIABLE doc
BlockSet(fmt) ==
  [kind : {"cue"}, id : IF fmt = "SRT" THEN {TRUE} ELSE BOOLEAN, n : 0..2, sep : 1..2]
  \cup (IF fmt = "WebVTT" THEN [kind : {"note"}, id : {FALSE}, n : 0..1, sep : 1..2] ELSE {})
Init == \E fmt \in {"WebVTT", "SRT"} : \E hdr \in 0..1 : \E hsep \in 1..2 :
          doc = [fmt |-> fmt, hdr |-> IF fmt = "SRT" THEN 0 ELSE hdr, hsep |-> IF fmt = "SRT" THEN 1 ELSE hsep, blocks |-> <<>>]
Next == /\ Len(doc.blocks) < MaxBlocks
        /\ \E b \in BlockSet(doc.fmt) : doc' = [doc EXCEPT !.blocks = Append(@, b)]
Spec == Init /\ [][Next]_doc
\* the last block may also be followed by no blank line at all (end of file)
Variants == {doc} \cup (IF doc.blocks = <<>> THEN {} ELSE {[doc EXCEPT !.blocks[Len(doc.blocks)].sep = 0]})
ReadersMeetRequirement ==
  \A d \in Variants : IF d.fmt = "WebVTT" THEN VttCode(d, AsFound) = Want(d) ELSE SrtCode(d, AsFoundSrt) = Want(d)
EmitCase == IF Emit THEN \A d \in Variants : PrintT("CASE " \o ToJson([doc |-> d])) ELSE TRUE
=============================================================================
