------------------------------ MODULE MC_Langs ------------------------------
(* Every set of NLangs languages with up to MaxCues sorted, non-overlapping    *)
(* cues each on a small millisecond grid: the SAMI writer's placement design    *)
(* model keeps the body sorted and every paragraph in the block of its start.   *)
(* AllowEmptyPrimary = TRUE includes sets whose first language has no cue;       *)
(* LoseWhenEmpty = TRUE models the placement as found before the repair (the     *)
(* block created while no sync exists is never attached): negative control.     *)
EXTENDS Langs, Json
CONSTANTS NLangs, MaxCues, GridMax, AllowEmptyPrimary, LoseWhenEmpty, Emit

Spans == {<<a, b>> \in (0..GridMax) \X (0..GridMax) : a < b}
\* sorted, non-overlapping lists of up to MaxCues spans
Lists == UNION { {f \in [1..n -> Spans] : \A k \in 1..(n - 1) : f[k][2] <= f[k + 1][1]} : n \in 0..MaxCues }
Names == <<"aa", "bb", "cc">>
VARIABLES pick, set
Init == /\ pick \in Lists /\ set = <<>>
Next == /\ Len(set) < NLangs
        /\ \E f \in Lists :
             set' = Append(set, [lang |-> Names[Len(set) + 1],
                                 cues |-> [k \in 1..Len(f) |-> [t |-> f[k][1], e |-> f[k][2], x |-> 10 * (Len(set) + 1) + k]]])
        /\ pick' = pick
Spec == Init /\ [][Next]_<<pick, set>>

\* the first language's list is `pick`
Full == IF Len(set) = NLangs THEN
          [set EXCEPT ![1].cues = [k \in 1..Len(pick) |-> [t |-> pick[k][1], e |-> pick[k][2], x |-> 10 + k]]]
        ELSE <<>>
InDomain == Len(set) = NLangs /\ (AllowEmptyPrimary \/ pick # <<>>) /\ (\E k \in 1..NLangs : Full[k].cues # <<>>)
SamiModelMeetsRequirement ==
  InDomain => LET b == ModelSami(Full, LoseWhenEmpty) IN
              SortedBody(b) /\ FaithfulSami(StartsOnly(Full), b) /\ NoForeignLanguage(Full, b)
EmitCase == IF Emit /\ InDomain THEN PrintT("CASE " \o ToJson([set |-> Full])) ELSE TRUE
=============================================================================
