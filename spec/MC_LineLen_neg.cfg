SPECIFICATION Spec
CONSTANTS
  MaxCaps = 4
  Overwrites = TRUE
INVARIANT ScanMeetsRequirement
CHECK_DEADLOCK FALSE
