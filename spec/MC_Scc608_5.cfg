SPECIFICATION Spec
CONSTANTS
  Depth = 5
INVARIANT TypeOK
INVARIANT NoInvention
INVARIANT GroupsPartition
INVARIANT EventsOrdered
CHECK_DEADLOCK FALSE
