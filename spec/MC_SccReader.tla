--------------------------- MODULE MC_SccReader ---------------------------
(* Every word sequence up to MaxWords over the control codes the reader acts  *)
(* on (mode commands, erase, end of caption, carriage return, a preamble, a    *)
(* tab offset, text), single or doubled as the sequence happens to have it,    *)
(* with new lines 0, 2 or 40 frames on: invariants of the control skeleton.       *)
EXTENDS SccReader
CONSTANTS MaxWords, EnmOnlyInPopOn, LineKeepsLast
VARIABLES st, nw, pending, erased, later

Words == [w : {"9420"}, c : {"RCL"}] \cup [w : {"9429"}, c : {"RDC"}] \cup [w : {"9425"}, c : {"RU2"}]
         \cup [w : {"94ae"}, c : {"ENM"}] \cup [w : {"942f"}, c : {"EOC"}] \cup [w : {"94ad"}, c : {"CR"}]
         \cup [w : {"942c"}, c : {"EDM"}] \cup [w : {"9470"}, c : {"PAC"}] \cup [w : {"c1c2"}, c : {"CHARS"}]

\* the first line is labelled one second (0 stands for "no time yet" in the code), and a stream
\* opens with a mode command
Init == st = Line(Init0, 30) /\ nw = 0 /\ pending = [m \in Modes |-> 0] /\ erased = [m \in Modes |-> 0] /\ later = FALSE
\* mode discipline of a well-formed stream: End-Of-Caption belongs to pop-on, Carriage Return to
\* roll-up; Erase-Non-displayed-Memory is a pop-on command too, but real streams send
\* "94ae 94ae 9420 9420" while roll-up is still the active mode (EnmOnlyInPopOn = FALSE explores that)
Allowed(x) == /\ (nw = 0 => x.c \in CueStart)
              /\ (x.c = "EOC" => st.mode = "pop")
              /\ (x.c = "CR" => st.mode = "roll")
              /\ (x.c = "ENM" /\ EnmOnlyInPopOn => st.mode = "pop")
\* ghost bookkeeping: text words waiting in each buffer, and text words that vanished from a buffer
\* without becoming a caption or a displayed cue
Ghost(x, s2) ==
  LET kept == Len(s2.stash) + Len(s2.q) > Len(st.stash) + Len(st.q) IN
  /\ pending' = [m \in Modes |->
        IF ~st.empty[m] /\ s2.empty[m] THEN 0
        ELSE IF x.c = "CHARS" /\ m = s2.mode /\ ~s2.empty[m] /\ s2.lc.last = x.w THEN pending[m] + 1 ELSE pending[m]]
  /\ erased' = [m \in Modes |-> IF ~st.empty[m] /\ s2.empty[m] /\ ~kept THEN erased[m] + pending[m] ELSE erased[m]]
Word == /\ nw < MaxWords
        /\ \E x \in Words :
             /\ Allowed(x)
             /\ LET s2 == Step(st, x.w, x.c, 1, IF x.c = "CHARS" THEN FALSE ELSE st.empty[st.mode], 5).st IN
                st' = s2 /\ Ghost(x, s2)
        /\ nw' = nw + 1 /\ later' = FALSE
NewLine == /\ nw < MaxWords /\ st.frames > 0
           /\ \E gap \in {0, 2, 40} :
                /\ st' = IF LineKeepsLast THEN LineAsFound(st, Now(st) + gap) ELSE Line(st, Now(st) + gap)
                /\ later' = (gap > 0)
           /\ UNCHANGED <<nw, pending, erased>>
Next == Word \/ NewLine
Spec == Init /\ [][Next]_<<st, nw, pending, erased, later>>

\* what read() returns if the stream ended here
Final == End(st, 1, 5)

\* an End-Of-Caption first stores the cue that is on display, so at most one cue is ever waiting
QueueAtMostOne == Len(st.q) <= 1
\* a stored caption has no end yet, or ends no earlier than it starts
EndsNotBeforeStarts == \A k \in 1..Len(Final.stash) : Final.stash[k].e = 0 \/ Final.stash[k].e >= Final.stash[k].s
\* captions are stored in the order they start
StartsInOrder == \A k \in 1..(Len(Final.stash) - 1) : Final.stash[k].s <= Final.stash[k + 1].s
\* only the batch stored last can still be without an end (what fix_last_captions_without_ending relies on)
OnlyLastBatchOpen == \A k \in 1..Len(Final.stash) : Final.stash[k].e = 0 => k > Len(Final.stash) - Final.still
\* text sent in roll-up or paint-on mode is never thrown away (pop-on text is, by Erase-Non-displayed-Memory)
NoRollOrPaintTextErased == erased["roll"] = 0 /\ erased["paint"] = 0
\* a code is a repetition only in the frame after its first copy: the first word of a line that
\* starts later than the previous one stopped is always executed, whatever it is
LaterLineWordsAreExecuted == later => \A x \in Words : ~Doubled(st, x.w, x.c).skip
=============================================================================
