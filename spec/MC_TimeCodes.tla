---------------------------- MODULE MC_TimeCodes ----------------------------
(* Spellings over field boundary sets.  Sanity invariants of the oracle      *)
(* (Denote) against TLC's native integers where those fit, monotonicity and  *)
(* the canonical write/read round trip; every spelling is emitted so that    *)
(* the harness can put it into a document for the real reader.               *)
EXTENDS TimeCodes, Json, TLC
CONSTANTS Emit, Full

D2 == IF Full THEN {<<0,0>>, <<0,1>>, <<0,9>>, <<1,0>>, <<2,9>>, <<3,0>>, <<5,9>>} ELSE {<<0,0>>, <<0,9>>, <<1,0>>, <<5,9>>}
Hours == IF Full THEN {<<0>>, <<0,0>>, <<0,1>>, <<9>>, <<2,3>>, <<2,4>>, <<9,9>>, <<1,0,0>>, <<9,9,9>>}
         ELSE {<<0,0>>, <<0,1>>, <<2,4>>, <<9,9,9>>}
Fracs == IF Full THEN {<<0>>, <<5>>, <<0,5>>, <<5,0,0>>, <<9,9,9>>, <<0,0,1>>, <<1,2,3,4>>, <<0,0,0,0,0,1>>,
                       <<9,9,9,9,9,9>>, <<9,9,9,9,9,9,9>>, <<1,2,3,4,5,6,7,8,9>>}
         ELSE {<<5>>, <<0,5>>, <<9,9,9>>, <<1,2,3,4>>, <<0,0,0,0,0,1>>, <<9,9,9,9,9,9,9>>}
Frac3 == IF Full THEN {<<0,0,0>>, <<0,0,1>>, <<0,5,0>>, <<5,0,0>>, <<9,9,9>>} ELSE {<<0,0,0>>, <<0,0,1>>, <<9,9,9>>}
Frames == IF Full THEN {<<0,0>>, <<0,1>>, <<1,5>>, <<2,9>>} ELSE {<<0,1>>, <<2,9>>}
Ints == IF Full THEN {<<0>>, <<1>>, <<5,9>>, <<6,0>>, <<9,0>>, <<3,5,9,9>>, <<8,6,4,0,0>>, <<1,0,0,0,0,0>>, <<3,6,0,0,0,0,0>>}
        ELSE {<<0>>, <<1>>, <<9,0>>, <<8,6,4,0,0>>}
OffFracs == IF Full THEN {<<>>, <<0>>, <<5>>, <<0,5>>, <<5,0,0>>, <<0,0,1>>, <<9,9,9>>, <<1,2,3,4>>, <<0,0,0,0,0,1>>, <<9,9,9,9,9,9>>}
            ELSE {<<>>, <<5>>, <<0,0,1>>, <<1,2,3,4>>}
FrameNos == IF Full THEN {<<0>>, <<1>>, <<2,4>>, <<2,5>>, <<4,0,5>>, <<4,0,6>>, <<1,0,0,0>>, <<9,0,0,0,0>>, <<2,1,6,0,0,0,0>>, <<8,9,9,9,9,9,9,9>>}
            ELSE {<<1>>, <<2,5>>, <<4,0,6>>, <<9,0,0,0,0>>}
Fps == IF Full THEN {<<25, 1>>, <<24, 1>>, <<30, 1>>, <<50, 1>>, <<23976, 1000>>, <<2997, 100>>, <<5994, 100>>}
       ELSE {<<25, 1>>, <<23976, 1000>>, <<30, 1>>}
Millis == IF Full THEN {<<0>>, <<1>>, <<9,9,9>>, <<1,0,0,0>>, <<5,9,9,9,9>>, <<6,0,0,0,0>>, <<3,5,9,9,9,9,9>>, <<8,6,4,0,0,0,0,0>>, <<3,5,9,9,9,9,9,9,9,9>>}
          ELSE {<<0>>, <<9,9,9>>, <<6,0,0,0,0>>, <<3,5,9,9,9,9,9,9,9,9>>}

Hms(h, m, s, fr, ff) == [kind |-> "hms", h |-> h, m |-> m, s |-> s, frac |-> fr, frames |-> ff]

Stamps(fmt) ==
  CASE fmt = "SRT"    -> {Hms(h, m, s, fr, <<>>) : h \in Hours, m \in D2, s \in D2, fr \in Frac3 \cup {<<>>}}
    [] fmt = "WebVTT" -> {Hms(h, m, s, fr, <<>>) : h \in {x \in Hours : Len(x) >= 2} \cup {<<>>}, m \in D2, s \in D2, fr \in Frac3}
    [] fmt = "DFXP"   -> {Hms(h, m, s, fr, <<>>) : h \in Hours, m \in D2, s \in D2, fr \in Fracs \cup {<<>>}}
                         \cup {Hms(h, m, s, <<>>, ff) : h \in Hours, m \in D2, s \in D2, ff \in Frames}
    [] fmt = "DFXPoff" -> {[kind |-> "off", i |-> i, f |-> f, metric |-> mt] : i \in Ints, f \in OffFracs, mt \in {"h", "m", "s", "ms", "f"}}
    [] fmt = "MicroDVD" -> {[kind |-> "frame", n |-> n] : n \in FrameNos}
    [] fmt = "SAMI"   -> {[kind |-> "ms", n |-> n] : n \in Millis}

Formats == {"SRT", "WebVTT", "DFXP", "DFXPoff", "MicroDVD", "SAMI"}
None == [kind |-> "none"]
VARIABLES fmt, sp, fps
Init == fmt \in Formats /\ sp = None /\ fps = <<25, 1>>
Next == /\ sp = None
        /\ sp' \in Stamps(fmt)
        /\ fps' \in (IF fmt = "MicroDVD" THEN Fps ELSE {<<25, 1>>})
        /\ fmt' = fmt
Spec == Init /\ [][Next]_<<fmt, sp, fps>>

R == [fps |-> fps]
Val(ds) == ToSmall(FromDigits(ds))

\* seconds part agrees with native arithmetic; fraction and frames stay below one second
HmsSane == (sp # None /\ sp.kind = "hms") =>
  /\ ToSmall(Sec(sp.h, sp.m, sp.s)) = Val(sp.h) * 3600 + Val(sp.m) * 60 + Val(sp.s)
  /\ Lt(FracUs(sp.frac), Million)
  /\ (sp.frames # <<>> => ToSmall(FramesUs(sp.frames)) = (Val(sp.frames) * 1000000) \div 30)
  /\ (Len(sp.frac) = 3 => ToSmall(FracUs(sp.frac)) = Val(sp.frac) * 1000)
  /\ IsBig(Denote(sp, R))
\* one more second is exactly 10^6 microseconds more (carry)
HmsStep == (sp # None /\ sp.kind = "hms" /\ sp.s # <<5, 9>>) =>
  Denote([sp EXCEPT !.s = <<sp.s[1], sp.s[2] + 1>>], R) = Add(Denote(sp, R), Million)
\* offset metrics agree with each other: x h = 60 x m = 3600 x s (when exact), x s = 1000 x ms
OffSane == (sp # None /\ sp.kind = "off") =>
  /\ IsBig(Denote(sp, R))
  /\ (sp.metric = "s" /\ Len(sp.f) <= 3 =>
        Denote([sp EXCEPT !.metric = "ms"], R) = DivSmall(Denote(sp, R), 1000))
  /\ (sp.metric = "m" /\ sp.f = <<>> => Denote(sp, R) = MulSmall(Denote([sp EXCEPT !.metric = "s"], R), 60))
  /\ (sp.metric = "h" /\ sp.f = <<>> => Denote(sp, R) = MulSmall(Denote([sp EXCEPT !.metric = "m"], R), 60))
  /\ (sp.metric = "f" /\ sp.f = <<>> /\ Len(sp.i) <= 3 => ToSmall(Denote(sp, R)) = (Val(sp.i) * 1000000) \div 30)
\* MicroDVD at 25 fps: 40 ms per frame
FrameSane == (sp # None /\ sp.kind = "frame") =>
  /\ (fps = <<25, 1>> => Denote(sp, R) = MulSmall(FromDigits(sp.n), 40000))
  /\ IsBig(Denote(sp, R))
\* what the writers must print for the denoted instant reads back to its millisecond (C02 o C01)
WriteReadSane == (sp # None /\ sp.kind = "hms" /\ Len(sp.frac) = 3 /\ Len(sp.h) >= 2) =>
  HmsOk([plain |-> TRUE, f |-> <<sp.h, sp.m, sp.s, sp.frac>>], [n |-> Denote(sp, R), d |-> 1], FALSE)

EmitCase == IF Emit /\ sp # None THEN PrintT("CASE " \o ToJson([fmt |-> fmt, sp |-> sp, fps |-> fps])) ELSE TRUE
=============================================================================
