SPECIFICATION Spec
CONSTANTS
  MaxOps = 3
  MaxSets = 2
  SharedDefaultStyles = FALSE
  ReaderKeepsStash = FALSE
  SpanFlagSurvives = FALSE
  Emit = TRUE
INVARIANT Isolation
INVARIANT OutputsAreFunctions
INVARIANT EmitCase
CHECK_DEADLOCK FALSE
