---------------------------- MODULE Trace_Markup ----------------------------
EXTENDS MarkupWriter, Json, IOUtils
Cases == ndJsonDeserialize(IOEnv.TRACE_FILE)
\* JSON arrays of style names arrive as sequences: turn them into sets
Range(s) == {s[k] : k \in 1..Len(s)}
FixNodes(ns) == [k \in 1..Len(ns) |-> IF ns[k].t = "S" THEN [ns[k] EXCEPT !.st = Range(@)] ELSE ns[k]]
FixToks(ts) == [k \in 1..Len(ts) |-> IF ts[k].k = "open" THEN [ts[k] EXCEPT !.st = Range(@)] ELSE ts[k]]
FixHop(h) == [h EXCEPT !.toks = FixToks(@), !.back = FixNodes(@)]
VerdictM(rec) ==
  IF rec.k = "spans" THEN
     VerdictSpans([nodes |-> FixNodes(rec.nodes), hops |-> [k \in 1..Len(rec.hops) |-> FixHop(rec.hops[k])]])
  \* every caption a reader returns is judged on its own (an opening node in one caption is not
  \* closed by an end node in the next)
  ELSE IF rec.k = "balanced" THEN
     (IF \A c \in 1..Len(rec.caps) : VerdictBalanced([nodes |-> FixNodes(rec.caps[c])]) = "ok"
        THEN "ok" ELSE "ReaderReturnedUnbalancedStyleNodes")
  ELSE "UnknownRecordKind"
VARIABLE i
Init == i \in 1..Len(Cases)
Next == /\ i > 0
        /\ LET v == VerdictM(Cases[i]) IN
           IF v = "ok" THEN TRUE ELSE PrintT("REJECT " \o Cases[i].id \o " " \o v)
        /\ i' = 0
Spec == Init /\ [][Next]_i
=============================================================================
