SPECIFICATION Spec
CONSTANTS
  MaxNodes = 4
  AsFound = TRUE
  Emit = FALSE
INVARIANT ModelMeetsRequirement
INVARIANT EmitCase
CHECK_DEADLOCK FALSE
