SPECIFICATION Spec
CONSTANT MaxWords = 6
CONSTANT EnmOnlyInPopOn = FALSE
CONSTANT LineKeepsLast = FALSE
INVARIANT QueueAtMostOne
INVARIANT EndsNotBeforeStarts
INVARIANT StartsInOrder
INVARIANT OnlyLastBatchOpen
INVARIANT NoRollOrPaintTextErased
INVARIANT LaterLineWordsAreExecuted
CHECK_DEADLOCK FALSE
