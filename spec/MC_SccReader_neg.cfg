SPECIFICATION Spec
CONSTANT MaxWords = 6
CONSTANT EnmOnlyInPopOn = FALSE
INVARIANT QueueAtMostOne
INVARIANT EndsNotBeforeStarts
INVARIANT StartsInOrder
INVARIANT OnlyLastBatchOpen
INVARIANT NoRollOrPaintTextErased
CHECK_DEADLOCK FALSE
