----------------------------- MODULE MC_Detect -----------------------------
(* Exhaustive: every token string up to MaxLen.  One TLC state per string.   *)
(* Invariant: the design model satisfies the requirement.  With Emit = TRUE  *)
(* every string is also printed as a CASE for replay against the real code.  *)
EXTENDS Detect, Json
CONSTANTS MaxLen, SrtGuard, Emit

VARIABLE s
Init == s = <<>>
Next == /\ Len(s) < MaxLen
        /\ \E t \in Tokens : s' = Append(s, t)
Spec == Init /\ [][Next]_s

ModelMeetsRequirement == Verdict(ModelRecord(s, SrtGuard)) = "ok"

EmitCase == IF Emit THEN PrintT("CASE " \o ToJson([toks |-> s])) ELSE TRUE
=============================================================================
