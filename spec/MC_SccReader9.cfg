SPECIFICATION Spec
CONSTANT MaxWords = 8
CONSTANT EnmOnlyInPopOn = TRUE
CONSTANT LineKeepsLast = FALSE
INVARIANT QueueAtMostOne
INVARIANT EndsNotBeforeStarts
INVARIANT StartsInOrder
INVARIANT OnlyLastBatchOpen
INVARIANT NoRollOrPaintTextErased
INVARIANT LaterLineWordsAreExecuted
CHECK_DEADLOCK FALSE
