SPECIFICATION Spec
CONSTANT MaxWords = 8
CONSTANT EnmOnlyInPopOn = TRUE
INVARIANT QueueAtMostOne
INVARIANT EndsNotBeforeStarts
INVARIANT StartsInOrder
INVARIANT OnlyLastBatchOpen
INVARIANT NoRollOrPaintTextErased
CHECK_DEADLOCK FALSE
