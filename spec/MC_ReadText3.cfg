SPECIFICATION Spec
CONSTANTS
  MaxItems = 3
  Emit = TRUE
INVARIANT DisplaySane
INVARIANT LinesSane
INVARIANT EmitCase
CHECK_DEADLOCK FALSE
