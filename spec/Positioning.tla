----------------------------- MODULE Positioning -----------------------------
(***************************************************************************)
(* C12: positioning through a DFXP round trip (requirement A) and into      *)
(* WebVTT cue settings (requirement B).  Layout values are those of module  *)
(* Geometry ([cls |-> "layout", o, e, p, a], absent parts [cls |-> "none"]). *)
(***************************************************************************)
EXTENDS Geometry

NoneV == [cls |-> "none"]
IsNone(x) == x.cls = "none"
\* a layout is "empty" when it has no part at all (raw WebVTT settings do not count here:
\* they make the layout truthy for the writer but give a DFXP region nothing to carry)
NonEmpty(l) == ~IsNone(l) /\ (l.truthy)

\* first non-empty layout along node -> caption -> language (the set level is a stimulus only)
Eff(node, cap, lang) == IF NonEmpty(node) THEN node ELSE IF NonEmpty(cap) THEN cap ELSE IF NonEmpty(lang) THEN lang ELSE NoneV

\* DFXP defaults: text alignment start, display alignment after (bottom)
WithDefaults(l) ==
  LET a == IF IsNone(l) \/ IsNone(l.a) THEN [cls |-> "align", h |-> "none", v |-> "none"] ELSE l.a IN
  [cls |-> "layout",
   o |-> IF IsNone(l) THEN NoneV ELSE l.o,
   e |-> IF IsNone(l) THEN NoneV ELSE l.e,
   p |-> IF IsNone(l) THEN NoneV ELSE l.p,
   a |-> [cls |-> "align", h |-> IF a.h = "none" THEN "start" ELSE a.h, v |-> IF a.v = "none" THEN "bottom" ELSE a.v]]

-----------------------------------------------------------------------------
(* A. DFXP round trip *)
(* rec.set   : [langs |-> << [l, caps |-> << [l, nodes |-> << [l, s] >>] >>] >>]  *)
(*             l = layout or none; s = code points of the node's text            *)
(* rec.obs   : per language, per caption: << <<code point, layout>> ... >> for     *)
(*             every character of every TEXT node read back                      *)
(* rec.ok    : writing and reading back succeeded                                 *)
IsVisible(c) == c \notin {32, 9, 10, 13, 160}
\* expectation per visible character: <<code point, layout, settled>>; a character that has no
\* layout at node, caption or language level while the set itself carries one is not settled
\* by the statement (the writer may or may not let it inherit the set's layout)
RECURSIVE WantChars(_, _, _, _)
WantChars(nodes, cap, lang, setl) ==
  IF nodes = <<>> THEN <<>>
  ELSE LET n == Head(nodes)
           e == Eff(n.l, cap, lang)
           w == WithDefaults(e)
           settled == ~(IsNone(e) /\ NonEmpty(setl))
           vis == SelectSeq(n.s, IsVisible) IN
       [k \in 1..Len(vis) |-> <<vis[k], w, settled>>] \o WantChars(Tail(nodes), cap, lang, setl)

CharsMatch(obs, want) ==
  LET o == SelectSeq(obs, LAMBDA p : IsVisible(p[1])) IN
  /\ Len(o) = Len(want)
  /\ \A k \in 1..Len(want) : o[k][1] = want[k][1]
LayoutsMatch(obs, want) ==
  LET o == SelectSeq(obs, LAMBDA p : IsVisible(p[1])) IN
  \A k \in 1..Len(want) : ~want[k][3] \/ (~IsNone(o[k][2]) /\ ValEq(o[k][2], want[k][2]))

VerdictRoundTrip(rec) ==
  IF ~rec.ok THEN "RoundTripFailed"
  ELSE IF Len(rec.obs) # Len(rec.set.langs) THEN "LanguageCount"
  ELSE IF \E l \in 1..Len(rec.obs) : Len(rec.obs[l]) # Len(rec.set.langs[l].caps) THEN "CaptionCount"
  ELSE IF \E l \in 1..Len(rec.obs) : \E c \in 1..Len(rec.obs[l]) :
            ~CharsMatch(rec.obs[l][c], WantChars(rec.set.langs[l].caps[c].nodes, rec.set.langs[l].caps[c].l, rec.set.langs[l].l, rec.set.l))
       THEN "CharactersChanged"
  ELSE IF \E l \in 1..Len(rec.obs) : \E c \in 1..Len(rec.obs[l]) :
            ~LayoutsMatch(rec.obs[l][c], WantChars(rec.set.langs[l].caps[c].nodes, rec.set.langs[l].caps[c].l, rec.set.langs[l].l, rec.set.l))
       THEN "EffectiveLayoutChanged"
  ELSE "ok"

\* known deviation (KF-C12-1): a plain TEXT node's own layout is not written; the
\* character takes its caption's / language's region
RECURSIVE WantCharsDev(_, _, _, _)
WantCharsDev(nodes, cap, lang, setl) ==
  IF nodes = <<>> THEN <<>>
  ELSE LET n == Head(nodes)
           e == Eff(IF n.styled THEN n.l ELSE NoneV, cap, lang)
           w == WithDefaults(e)
           settled == ~(IsNone(e) /\ NonEmpty(setl))
           vis == SelectSeq(n.s, IsVisible) IN
       [k \in 1..Len(vis) |-> <<vis[k], w, settled>>] \o WantCharsDev(Tail(nodes), cap, lang, setl)
VerdictRoundTripDev(rec) ==
  IF ~rec.ok THEN "RoundTripFailed"
  ELSE IF \E l \in 1..Len(rec.obs) : \E c \in 1..Len(rec.obs[l]) :
            ~LayoutsMatch(rec.obs[l][c], WantCharsDev(rec.set.langs[l].caps[c].nodes, rec.set.langs[l].caps[c].l, rec.set.langs[l].l, rec.set.l))
       THEN "EffectiveLayoutChangedBeyondKnownDeviation"
  ELSE "ok"

-----------------------------------------------------------------------------
(* B. WebVTT cue settings *)
(* rec.groups : the caption's text nodes grouped into maximal runs of equal      *)
(*              effective layout, each [l |-> effective layout, raw |-> string]    *)
(* rec.cues   : written cues of the caption: [same_times, align, pos, line, size,  *)
(*              raw] - align a string ("" = absent), pos/line/size printed tokens  *)
(*              or none, raw = the settings text as written                        *)
ZeroQ == Q(<<>>, <<1>>)
PadQ(l, part) == IF IsNone(l.p) THEN ZeroQ ELSE Q(l.p[part].n, l.p[part].d)
SizeQ(sz) == Q(sz.n, sz.d)
TokAbsent(t) == t.cls = "none"

CueOk(cue, l) ==
  IF IsNone(l) THEN "ok"      \* nothing to place: any default rendering
  ELSE
  LET ha == IF IsNone(l.a) THEN "none" ELSE l.a.h IN
  IF ~cue.same_times THEN "CueTimesDiffer"
  ELSE IF ha = "center" /\ cue.align # "" THEN "AlignWrittenForCentre"
  ELSE IF ha \notin {"center", "none"} /\ cue.align # ha THEN "AlignWrong"
  ELSE IF ha = "none" /\ cue.align \notin {"", "start"} THEN "AlignWrong"
  ELSE IF IsNone(l.o) THEN "ok"     \* the arithmetic is stated for layouts that have an origin
  ELSE IF TokAbsent(cue.pos) \/ ~TokOk(cue.pos, QAdd(SizeQ(l.o.x), PadQ(l, "s"))) THEN "PositionNotLeftEdgePlusPadding"
  ELSE IF TokAbsent(cue.line) \/ ~TokOk(cue.line, QAdd(SizeQ(l.o.y), PadQ(l, "b"))) THEN "LineNotTopEdgePlusPadding"
  ELSE IF IsNone(l.e) THEN (IF TokAbsent(cue.size) THEN "ok" ELSE "SizeInvented")
  ELSE LET pads == QAdd(PadQ(l, "s"), PadQ(l, "e")) IN
       IF ~QLeq(pads, SizeQ(l.e.h)) THEN "ok"                       \* paddings wider than the box: not settled
       ELSE IF TokAbsent(cue.size) \/ ~TokOk(cue.size, QSub(SizeQ(l.e.h), pads)) THEN "SizeNotWidthMinusPaddings"
       ELSE "ok"

RECURSIVE CuesOk(_, _)
CuesOk(cues, groups) ==
  IF groups = <<>> THEN "ok"
  ELSE LET g == Head(groups) IN
       IF g.raw # "" THEN (IF Head(cues).raw = g.raw THEN CuesOk(Tail(cues), Tail(groups)) ELSE "RawCueSettingsNotVerbatim")
       ELSE LET v == CueOk(Head(cues), g.l) IN IF v = "ok" THEN CuesOk(Tail(cues), Tail(groups)) ELSE v

\* rec.groups lists the caption's text nodes; a run is a maximal stretch of equal layouts.  Nodes
\* with different layouts must be separate cues; nodes whose own layouts differ but whose effective
\* layouts are equal (text without a layout next to text carrying the caption's layout) may be one
\* cue or two: runs by node layout and runs by effective layout are both accepted
GKey(g, byNode) == IF byNode THEN <<g.nl, g.raw>> ELSE <<g.l, g.raw>>
RECURSIVE Runs(_, _)
Runs(gs, byNode) ==
  IF Len(gs) <= 1 THEN gs
  ELSE IF GKey(gs[1], byNode) = GKey(gs[2], byNode) THEN Runs(Tail(gs), byNode)
  ELSE <<gs[1]>> \o Runs(Tail(gs), byNode)

VerdictVtt(rec) ==
  IF ~rec.ok THEN "WriterFailed"
  ELSE LET fine == Runs(rec.groups, TRUE)
           coarse == Runs(rec.groups, FALSE) IN
       IF Len(rec.cues) = Len(fine) THEN CuesOk(rec.cues, fine)
       ELSE IF Len(rec.cues) = Len(coarse) THEN CuesOk(rec.cues, coarse)
       ELSE "NotOneCuePerLayoutGroup"

VerdictPos(rec) == CASE rec.k = "dfxprt" -> VerdictRoundTrip(rec)
                     [] rec.k = "dfxprt_dev" -> VerdictRoundTripDev(rec)
                     [] rec.k = "vttpos" -> VerdictVtt(rec)
                     [] OTHER -> "UnknownRecordKind"
=============================================================================
