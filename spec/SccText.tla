------------------------------- MODULE SccText -------------------------------
(***************************************************************************)
(* What an SCC stream transmits, row by row (C15, C16), independent of the  *)
(* caption mode: the displayable characters sent for each row after         *)
(* backspace and extended-character replacement.                            *)
(* Programs are those of module Scc608 (lines of de-doubled symbols).       *)
(***************************************************************************)
EXTENDS Naturals, Integers, Sequences, FiniteSets, BigNat, TLC

\* st = [rows |-> finished rows, cur |-> row being written]
EndRow(st) == IF st.cur = <<>> THEN st ELSE [rows |-> Append(st.rows, st.cur), cur |-> <<>>]
DropLast(s) == IF s = <<>> THEN s ELSE SubSeq(s, 1, Len(s) - 1)
StepT(st, s) ==
  CASE s.k = "CH"  -> [st EXCEPT !.cur = IF s.b = 0 THEN Append(@, s.a) ELSE Append(Append(@, s.a), s.b)]
    [] s.k = "SP"  -> [st EXCEPT !.cur = Append(@, s.x)]
    [] s.k = "EXT" -> [st EXCEPT !.cur = Append(DropLast(@), s.x)]
    [] s.k = "BS"  -> [st EXCEPT !.cur = DropLast(@)]
    [] s.k \in {"PAC", "CR", "EOC", "RCL", "RDC", "RU", "ENM"} -> EndRow(st)
    [] OTHER -> st
RECURSIVE FoldSyms(_, _)
FoldSyms(st, syms) == IF syms = <<>> THEN st ELSE FoldSyms(StepT(st, Head(syms)), Tail(syms))
RECURSIVE FoldLines(_, _)
FoldLines(st, lines) == IF lines = <<>> THEN st ELSE FoldLines(FoldSyms(st, Head(lines).syms), Tail(lines))
SentRows(prog) == EndRow(FoldLines([rows |-> <<>>, cur |-> <<>>], prog)).rows

IsSpc(c) == c \in {32, 160}
RECURSIVE RTrim(_)
RTrim(s) == IF s # <<>> /\ IsSpc(s[Len(s)]) THEN RTrim(DropLast(s)) ELSE s
RECURSIVE LTrim(_)
LTrim(s) == IF s # <<>> /\ IsSpc(Head(s)) THEN LTrim(Tail(s)) ELSE s
NoSpaces(s) == SelectSeq(s, LAMBDA c : ~IsSpc(c))
RECURSIVE Flatten(_)
Flatten(ss) == IF ss = <<>> THEN <<>> ELSE Head(ss) \o Flatten(Tail(ss))

-----------------------------------------------------------------------------
(* C15 *)
(* rec.obs = [ok, err, named, caps]: err the exception class name or "", named the   *)
(* lines the error message lists (code points), caps = per returned caption its lines *)
Limit == 32
TooLong(rows) == SelectSeq(rows, LAMBDA r : Len(RTrim(r)) > Limit)
VerdictLineLength(rec) ==
  LET rows == SentRows(rec.prog)
      long == TooLong(rows) IN
  IF rec.obs.err = "CaptionLineLengthError" THEN
     IF long = <<>> THEN "LengthErrorWithoutLongLine"
     \* named = the row's characters; blanks are left out of the comparison (whether the cell of a
     \* mid-row code shows as a blank is not settled by the requirement)
     ELSE IF \E k \in 1..Len(long) : ~(\E j \in 1..Len(rec.obs.named) : NoSpaces(rec.obs.named[j]) = NoSpaces(long[k]))
          THEN "OffendingLineNotNamed"
     ELSE "ok"
  ELSE IF ~rec.obs.ok THEN "OtherError"
  ELSE IF \E c \in 1..Len(rec.obs.caps) : \E l \in 1..Len(rec.obs.caps[c]) : Len(rec.obs.caps[c][l]) > Limit
       THEN "LongLineReturnedSilently"
  ELSE IF long # <<>> THEN "LongLineReturnedSilently"
  ELSE "ok"

-----------------------------------------------------------------------------
(* C16: roll-up / paint-on conservation and continuity                        *)
(* rec.obs.caps = << [start, end (BigNat ns), lines] >>                        *)
CapChars(c) == NoSpaces(Flatten(c.lines))
RECURSIVE AllCapChars(_)
AllCapChars(caps) == IF caps = <<>> THEN <<>> ELSE CapChars(Head(caps)) \o AllCapChars(Tail(caps))

\* every transmitted row lies within one caption: walking the captions in order, each row's
\* characters are found, contiguous, inside the current or a later caption, never split
RECURSIVE RowsWithin(_, _, _)
RowsWithin(rows, caps, pos) ==
  \* pos = characters of Head(caps) already consumed
  IF rows = <<>> THEN TRUE
  ELSE LET r == NoSpaces(Head(rows)) IN
    IF r = <<>> THEN RowsWithin(Tail(rows), caps, pos)
    ELSE IF caps = <<>> THEN FALSE
    ELSE LET cc == CapChars(Head(caps)) IN
         IF pos + Len(r) <= Len(cc) /\ SubSeq(cc, pos + 1, pos + Len(r)) = r
            THEN RowsWithin(Tail(rows), caps, pos + Len(r))
         ELSE IF pos = Len(cc) THEN RowsWithin(rows, Tail(caps), 0)
         ELSE FALSE

\* steps: maximal runs of captions sharing a start; each step ends where the next begins
Continuity(caps) ==
  \A k \in 1..(Len(caps) - 1) :
     \/ (caps[k].start = caps[k + 1].start /\ caps[k].end = caps[k + 1].end)
     \/ (Lt(caps[k].start, caps[k + 1].start) /\ caps[k].end = caps[k + 1].start)

VerdictRoll(rec) ==
  LET rows == SentRows(rec.prog) IN
  IF ~rec.obs.ok THEN "WellFormedStreamRefused"
  ELSE IF AllCapChars(rec.obs.caps) # NoSpaces(Flatten(rows)) THEN "CharactersLostDuplicatedOrReordered"
  ELSE IF ~RowsWithin(rows, rec.obs.caps, 0) THEN "RowSplitAcrossCaptions"
  ELSE IF \E k \in 1..Len(rec.obs.caps) : ~Lt(rec.obs.caps[k].start, rec.obs.caps[k].end) THEN "StartNotBeforeEnd"
  ELSE IF \E k \in 1..(Len(rec.obs.caps) - 1) : ~Leq(rec.obs.caps[k].start, rec.obs.caps[k + 1].start) THEN "NotOrderedByStart"
  ELSE IF ~Continuity(rec.obs.caps) THEN "CaptionDoesNotEndWhenNextBegins"
  ELSE "ok"

VerdictText(rec) == IF rec.k = "linelen" THEN VerdictLineLength(rec)
                    ELSE IF rec.k = "roll" THEN VerdictRoll(rec) ELSE "UnknownRecordKind"
=============================================================================
