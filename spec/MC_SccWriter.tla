---------------------------- MODULE MC_SccWriter ----------------------------
(* Design model of SCCWriter's schedule (PASS 2 / PASS 3), in frames: every     *)
(* caption's load of n code words is sent as one line                            *)
(*     ENM ENM RCL RCL <n words> EDM EDM EOC EOC                                  *)
(* starting (n + 8) frames before its start, and a clear line EDM EDM at its end  *)
(* unless the next load would collide with it.  PreRollFirst = FALSE models the   *)
(* code as found (the first caption is not moved ahead).                          *)
(* Requirement (C17, timing part): line starts non-decreasing, no line overlaps   *)
(* the next, and every caption's End-Of-Caption falls within three frames of its  *)
(* start.  Domain: the first start and every spacing leave room for the load.     *)
EXTENDS Naturals, Integers, Sequences, TLC
CONSTANTS MaxCaps, PreRollFirst
Loads == {5, 20, 60}
VARIABLES caps       \* sequence of [s, e, n]
Init == caps = <<>>
Next == /\ Len(caps) < MaxCaps
        /\ \E n \in Loads, slack \in {0, 1, 2, 3, 4, 10, 100}, dur \in {30, 45} :
             LET prevEnd == IF caps = <<>> THEN 0 ELSE caps[Len(caps)].e
                 prevEoc == IF caps = <<>> THEN 0 ELSE caps[Len(caps)].s
                 \* feasible: the load line (n + 8 words) fits after the previous line of words
                 s == (IF caps = <<>> THEN 0 ELSE prevEoc + 2) + n + 8 + slack
             IN caps' = Append(caps, [s |-> (IF s > prevEnd \/ caps = <<>> THEN s ELSE prevEnd + (s - prevEoc)), e |-> 0, n |-> n])
                /\ TRUE
Spec == Init /\ [][Next]_caps

\* give every caption an end: just before the next start or 45 frames
WithEnds == [k \in 1..Len(caps) |->
               [caps[k] EXCEPT !.e = IF k < Len(caps) /\ caps[k + 1].s - caps[k].s < 45 THEN caps[k + 1].s - 1 ELSE caps[k].s + 45]]

\* the writer's lines: <<start frame, number of words, frame of the first EOC word or -1>>
CodeStart(c, k) == IF k = 1 /\ ~PreRollFirst THEN c.s ELSE c.s - (c.n + 8)
RECURSIVE Lines(_, _)
Lines(cs, k) ==
  IF k > Len(cs) THEN <<>>
  ELSE LET c == cs[k]
           load == <<CodeStart(c, k), c.n + 8, CodeStart(c, k) + c.n + 6>>
           \* clear line dropped when the next load starts within three frames after it
           dropped == k < Len(cs) /\ c.e + 3 >= CodeStart(cs[k + 1], k + 1)
       IN <<load>> \o (IF dropped THEN <<>> ELSE << <<c.e, 2, -1>> >>) \o Lines(cs, k + 1)
Out == Lines(WithEnds, 1)
Eocs == SelectSeq(Out, LAMBDA l : l[3] >= 0)
Abs(x) == IF x < 0 THEN 0 - x ELSE x
ScheduleMeetsRequirement ==
  /\ \A k \in 1..(Len(Out) - 1) : Out[k][1] <= Out[k + 1][1] /\ Out[k][1] + Out[k][2] <= Out[k + 1][1]
  /\ \A k \in 1..Len(Out) : Out[k][1] >= 0
  /\ \A k \in 1..Len(caps) : Abs(Eocs[k][3] - WithEnds[k].s) <= 3
=============================================================================
