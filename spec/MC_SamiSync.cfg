SPECIFICATION Spec
CONSTANTS
  MaxCues = 3
  Falsy0 = FALSE
INVARIANT BlankSyncRule
CHECK_DEADLOCK FALSE
