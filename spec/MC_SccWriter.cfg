SPECIFICATION Spec
CONSTANTS
  MaxCaps = 3
  PreRollFirst = TRUE
INVARIANT ScheduleMeetsRequirement
CHECK_DEADLOCK FALSE
