----------------------------- MODULE MC_Session -----------------------------
(***************************************************************************)
(* Design model of the object graph behind C09 / C10, small enough for TLC  *)
(* to visit every history of up to MaxOps operations:                       *)
(*   - reader objects; an SCC-kind reader owns a caption stash               *)
(*   - caption sets with their own content, and a styles container that is  *)
(*     either their own or THE default-argument dict shared by all sets     *)
(*     built without styles                                                  *)
(*   - writer objects with the open_span flag that survives a write()        *)
(* Deviation constants say whether the code shares / keeps / leaks:          *)
(*   SharedDefaultStyles, ReaderKeepsStash, SpanFlagSurvives                 *)
(* The requirement (Isolation, OutputsAreFunctions) is an invariant; with a  *)
(* deviation switched on TLC returns the shortest history that breaks it.    *)
(* Every history is also emitted (CASE) and replayed on the real objects.    *)
(***************************************************************************)
EXTENDS Naturals, Sequences, FiniteSets, TLC, Json
CONSTANTS MaxOps, MaxSets, SharedDefaultStyles, ReaderKeepsStash, SpanFlagSurvives, Emit

Readers == {"r1", "r2"}          \* r1: a reader kind that keeps a stash (SCC), r2: stateless kind
Docs == {"d1", "d2"}             \* d2 yields a set with an unclosed style span
Writers == {"w1", "w2"}          \* w1: span-building writer (DFXP/SAMI), w2: plain writer

VARIABLES stash,      \* reader -> sequence of documents whose captions are in its stash
          sets,       \* sequence of [doc, ownStyles, usesDefault, edited]
          defaultStyles, \* content of the shared default dict
          open,       \* writer -> BOOLEAN (open_span)
          outs,       \* set of <<writer kind, dump, output>> observed
          hist
vars == <<stash, sets, defaultStyles, open, outs, hist>>

Kind(w) == IF w = "w1" THEN "span" ELSE "plain"
KeepsStash(r) == r = "r1" /\ ReaderKeepsStash

\* what a set looks like to an observer (its canonical dump)
Dump(s) == [docs |-> s.docs, styles |-> IF s.usesDefault THEN defaultStyles ELSE s.ownStyles, edited |-> s.edited]
\* what it must look like: a function of its own term only
Pristine(s) == [docs |-> <<s.doc>>, styles |-> s.ownStyles, edited |-> s.edited]

Init == /\ stash = [r \in Readers |-> <<>>]
        /\ sets = <<>> /\ defaultStyles = {} /\ open = [w \in Writers |-> FALSE]
        /\ outs = {} /\ hist = <<>>

Read(r, d) ==
  /\ Len(sets) < MaxSets
  /\ LET got == IF KeepsStash(r) THEN Append(stash[r], d) ELSE <<d>> IN
     /\ sets' = Append(sets, [doc |-> d, docs |-> got, ownStyles |-> {},
                              usesDefault |-> SharedDefaultStyles, edited |-> 0])
     /\ stash' = [stash EXCEPT ![r] = IF KeepsStash(r) THEN got ELSE <<>>]
  /\ hist' = Append(hist, [op |-> "read", reader |-> r, doc |-> d])
  /\ UNCHANGED <<defaultStyles, open, outs>>

AddStyle(k) ==
  /\ k \in 1..Len(sets)
  /\ IF sets[k].usesDefault
        THEN defaultStyles' = defaultStyles \cup {k} /\ sets' = [sets EXCEPT ![k].ownStyles = @ \cup {k}]
        ELSE sets' = [sets EXCEPT ![k].ownStyles = @ \cup {k}] /\ UNCHANGED defaultStyles
  /\ hist' = Append(hist, [op |-> "addstyle", set |-> k])
  /\ UNCHANGED <<stash, open, outs>>

EditCaption(k) ==
  /\ k \in 1..Len(sets) /\ sets[k].edited < 1
  /\ sets' = [sets EXCEPT ![k].edited = @ + 1]
  /\ hist' = Append(hist, [op |-> "editcaption", set |-> k])
  /\ UNCHANGED <<stash, defaultStyles, open, outs>>

\* output of a write: the dump it sees, plus a stray closing tag if the flag leaked in
Write(w, k) ==
  /\ k \in 1..Len(sets)
  /\ LET unbalanced == sets[k].doc = "d2"
         out == [dump |-> Dump(sets[k]), stray |-> (Kind(w) = "span" /\ open[w])]
     IN /\ outs' = outs \cup {<<Kind(w), Dump(sets[k]), out>>}
        /\ open' = [open EXCEPT ![w] = IF Kind(w) = "span" /\ unbalanced /\ SpanFlagSurvives THEN TRUE
                                       ELSE IF Kind(w) = "span" /\ ~SpanFlagSurvives THEN FALSE ELSE @]
  /\ hist' = Append(hist, [op |-> "write", writer |-> w, set |-> k])
  /\ UNCHANGED <<stash, sets, defaultStyles>>

Next == /\ Len(hist) < MaxOps
        /\ \/ \E r \in Readers, d \in Docs : Read(r, d)
           \/ \E k \in 1..MaxSets : AddStyle(k) \/ EditCaption(k)
           \/ \E w \in Writers, k \in 1..MaxSets : Write(w, k)
Spec == Init /\ [][Next]_vars

\* C10: every live set looks exactly like its own term says
Isolation == \A k \in 1..Len(sets) : Dump(sets[k]) = Pristine(sets[k])
\* C09: the output is a function of writer kind and content; a fresh writer would never emit a stray tag
OutputsAreFunctions == \A o \in outs : o[3] = [dump |-> o[2], stray |-> FALSE]
EmitCase == IF Emit /\ Len(hist) = MaxOps THEN PrintT("CASE " \o ToJson([ops |-> hist])) ELSE TRUE
View == <<stash, sets, defaultStyles, open, outs, hist>>
=============================================================================
