SPECIFICATION Spec
CONSTANTS
  MaxTok = 4
  MaxLines = 1
  Emit = FALSE
INVARIANT XmlRoundTrip
INVARIANT VttRoundTrip
INVARIANT VttNoTerminator
INVARIANT EmitCase
CHECK_DEADLOCK FALSE
