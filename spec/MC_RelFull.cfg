SPECIFICATION Spec
CONSTANTS
  Emit = TRUE
  Full = TRUE
INVARIANT ModelMeetsRequirement
INVARIANT EmitCase
CHECK_DEADLOCK FALSE
