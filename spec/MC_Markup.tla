------------------------------ MODULE MC_Markup ------------------------------
(* Every balanced, flat node stream up to MaxLen over {text, break, style on / *)
(* off with i, b, u, ib}: the three writers' span reconstruction (design      *)
(* model with the single open_span flag) yields balanced markup that covers    *)
(* exactly the flagged characters, as far as the format carries the style.     *)
(* Streams are emitted for replay through the real writers and readers.        *)
EXTENDS MarkupWriter, Json
CONSTANTS MaxLen, Emit

StyleSets == {{"i"}, {"b"}, {"u"}, {"i", "b"}}
VARIABLES nodes, cur, ntext     \* stream so far, currently open style set ({} = none), text nodes so far
Init == nodes = <<>> /\ cur = {} /\ ntext = 0
\* each text node has its own letter so that coverage is per node: 'a' + index
AddText == /\ Len(nodes) < MaxLen
           /\ nodes' = Append(nodes, [t |-> "T", s |-> <<97 + ntext, 65 + ntext>>])
           /\ ntext' = ntext + 1 /\ UNCHANGED cur
AddBr == /\ Len(nodes) < MaxLen /\ nodes # <<>>
         /\ nodes' = Append(nodes, [t |-> "BR"]) /\ UNCHANGED <<cur, ntext>>
Open == /\ Len(nodes) + 1 < MaxLen /\ cur = {}
        /\ \E st \in StyleSets : cur' = st /\ nodes' = Append(nodes, [t |-> "S", on |-> TRUE, st |-> st])
        /\ UNCHANGED ntext
Close == /\ cur # {}
         /\ nodes' = Append(nodes, [t |-> "S", on |-> FALSE, st |-> cur]) /\ cur' = {} /\ UNCHANGED ntext
Next == AddText \/ AddBr \/ Open \/ Close
Spec == Init /\ [][Next]_<<nodes, cur, ntext>>

Complete == cur = {} /\ ntext > 0
WriterModelsMeetRequirement ==
  Complete => \A fmt \in {"DFXP", "SAMI", "WebVTT"} :
     HopVerdict(nodes, [fmt |-> fmt, wf |-> TRUE, toks |-> ModelEmit(fmt, nodes), reads |-> FALSE, back |-> <<>>],
                Carried(fmt)) = "ok"
InputBalanced == Complete => NodesBalanced(nodes, <<>>)
EmitCase == IF Emit /\ Complete THEN PrintT("CASE " \o ToJson([nodes |-> nodes])) ELSE TRUE
=============================================================================
