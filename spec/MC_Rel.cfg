SPECIFICATION Spec
CONSTANTS
  Emit = TRUE
  Full = FALSE
INVARIANT ModelMeetsRequirement
INVARIANT EmitCase
CHECK_DEADLOCK FALSE
