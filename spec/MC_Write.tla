------------------------------ MODULE MC_Write ------------------------------
(* Writer side of TimeCodes (C02): instants on the carry grid, integer and   *)
(* in thirds of a microsecond.  A design model of the formatters (divmod     *)
(* chain, two-digit padding) must satisfy the requirement operators HmsOk /  *)
(* FrameOk, and the SAMI sync design model (last_time) the blank-sync rule.  *)
EXTENDS TimeCodes, Json, TLC
CONSTANTS Emit

\* integer microseconds around every carry
Pts == { <<>>, <<1>>, <<999>>, <<1000>>, <<1001>>, <<9999, 99>>, <<0, 100>>, <<1, 100>>,
         <<9999, 5999>>, <<0, 6000>>, <<1, 6000>>, <<9999, 9999, 35>>, <<0, 0, 36>>, <<1, 0, 36>>,
         <<9999, 9999, 863>>, <<9000, 9999, 863>>, <<0, 4000, 162>>, <<9999, 3999, 162>> }
\* the fractional instants the SCC reader produces: k frames of 1001/30 ms (non-drop)
\* or 1/30 s (drop-frame), i.e. k*100100/3 and k*100000/3 microseconds, for k on
\* both sides of every carry
Ks == {1, 2, 29, 30, 31, 1798, 1799, 1800, 107892, 107893, 108000}
SccPts == {MulSmall(FromSmall(k), 100100) : k \in Ks \cup {2589410}}
          \cup {MulSmall(FromSmall(k), 100000) : k \in Ks \cup {2591999}}

RECURSIVE NatDigitsW(_, _)
NatDigitsW(k, w) == IF w = 0 THEN <<>> ELSE Append(NatDigitsW(k \div 10, w - 1), k % 10)
RECURSIVE BigDigits(_)
BigDigits(a) == IF a = <<>> THEN <<>> ELSE LET qr == DivModSmall(a, 10) IN Append(BigDigits(qr[1]), qr[2])
Pad2(ds) == IF Len(ds) = 0 THEN <<0, 0>> ELSE IF Len(ds) = 1 THEN <<0>> \o ds ELSE ds

\* design model of Caption._format_timestamp: divmod chain on the floored microseconds
ModelHms(t) ==
  LET us == DivSmall(t.n, t.d)
      a == DivModSmall(us, 1000)            \* drop microseconds below the millisecond
      b == DivModSmall(a[1], 1000)          \* b[2] = milliseconds
      c == DivModSmall(b[1], 60)            \* c[2] = seconds
      d == DivModSmall(c[1], 60)            \* d[2] = minutes, d[1] = hours
  IN [plain |-> TRUE, f |-> <<Pad2(BigDigits(d[1])), NatDigitsW(d[2], 2), NatDigitsW(c[2], 2), NatDigitsW(b[2], 3)>>]
ModelFrame(t) == [plain |-> TRUE, f |-> <<LET x == BigDigits(Frame25(t)) IN IF x = <<>> THEN <<0>> ELSE x>>]

VARIABLES n, d
Init == (n \in Pts /\ d = 1) \/ (n \in SccPts /\ d = 3)
Next == UNCHANGED <<n, d>>
Spec == Init /\ [][Next]_<<n, d>>
TT == [n |-> n, d |-> d]

FormatterMeetsRequirement ==
  /\ HmsOk(ModelHms(TT), TT, FALSE)
  /\ HmsOk(ModelHms(TT), TT, TRUE)
  /\ FrameOk(ModelFrame(TT), TT)
\* the requirement really pins the value: a neighbouring millisecond is refused
RequirementIsTight ==
  LET later == [n |-> Add(n, MulSmall(<<1000>>, d)), d |-> d] IN ~HmsOk(ModelHms(later), TT, FALSE)
EmitCase == IF Emit THEN PrintT("CASE " \o ToJson([n |-> n, d |-> d])) ELSE TRUE
=============================================================================
