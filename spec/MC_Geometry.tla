---------------------------- MODULE MC_Geometry ----------------------------
(* Every symbol string up to MaxLen: the DFA (design model of the anchored   *)
(* regular expression) agrees with the declarative grammar wherever the      *)
(* statement settles the verdict; each string is emitted for replay.         *)
EXTENDS Geometry, Json, TLC
CONSTANTS MaxLen, Emit
VARIABLE s
Init == s = <<>>
Next == Len(s) < MaxLen /\ \E x \in Sym : s' = Append(s, x)
Spec == Init /\ [][Next]_s
DfaMeetsGrammar ==
  LET c == Classify(s) IN
  /\ (c = "accept" => DfaAccepts(s))
  /\ (c = "reject" => ~DfaAccepts(s))
\* an accepted string denotes a well-formed rational
DenotedWellFormed == Classify(s) = "accept" => (IsBig(Denoted(s).n) /\ IsBig(Denoted(s).d) /\ Denoted(s).d # <<>>)
EmitCase == IF Emit THEN PrintT("CASE " \o ToJson([s |-> s, c |-> Classify(s)])) ELSE TRUE
=============================================================================
