------------------------------- MODULE DfxpDoc -------------------------------
(***************************************************************************)
(* Structure of a written DFXP document (C07 ii - v) and, as a design       *)
(* model, the region table of DFXPWriter (RegionCreator): unique layouts in *)
(* encounter order, lookup node -> caption -> language -> set -> default,   *)
(* cleanup of unreferenced regions.                                         *)
(***************************************************************************)
EXTENDS Naturals, Sequences, FiniteSets, TLC

Range(s) == {s[k] : k \in 1..Len(s)}
Distinct(s) == \A a, b \in 1..Len(s) : a # b => s[a] # s[b]

\* number of maximal runs of equal consecutive keys
RECURSIVE Runs(_)
Runs(keys) == IF keys = <<>> THEN 0
              ELSE IF Len(keys) > 1 /\ keys[1] = keys[2] THEN Runs(Tail(keys)) ELSE 1 + Runs(Tail(keys))

-----------------------------------------------------------------------------
(* Requirement on one written document *)
(* rec.wf, rec.root_ok                                                        *)
(* rec.divs    : << [lang, region, ps : << [begin, end : BOOLEAN (present)] >>] >> *)
(* rec.styles, rec.regions : xml:id values defined in head (sequences)        *)
(* rec.srefs, rec.rrefs    : every style= / region= value used in body         *)
(* rec.want    : languages that must be written, in order; <<>> = not settled  *)
(* rec.langs   : languages of the input set                                   *)
(* rec.keys    : per language of rec.langs the (start,end) keys of its captions *)
(* rec.merge   : the writer merges runs of captions with identical times       *)
KeysOf(rec, lang) == LET k == CHOOSE j \in 1..Len(rec.langs) : rec.langs[j] = lang IN rec.keys[k]
WantP(rec, lang) == IF rec.merge THEN Runs(KeysOf(rec, lang)) ELSE Len(KeysOf(rec, lang))

VerdictDoc(rec) ==
  LET dl == [k \in 1..Len(rec.divs) |-> rec.divs[k].lang] IN
  IF ~rec.wf THEN "NotWellFormedXml"
  ELSE IF ~rec.root_ok THEN "RootNotTTInTtmlNamespace"
  ELSE IF rec.want # <<>> /\ dl # rec.want THEN "NotOneDivPerWrittenLanguage"
  ELSE IF ~Distinct(dl) \/ ~(Range(dl) \subseteq Range(rec.langs)) THEN "NotOneDivPerWrittenLanguage"
  ELSE IF \E k \in 1..Len(rec.divs) : Len(rec.divs[k].ps) # WantP(rec, rec.divs[k].lang) THEN "NotOneParagraphPerCaption"
  ELSE IF \E k \in 1..Len(rec.divs) : \E j \in 1..Len(rec.divs[k].ps) :
            ~rec.divs[k].ps[j].begin \/ ~rec.divs[k].ps[j].end THEN "ParagraphWithoutBeginOrEnd"
  ELSE IF ~Distinct(rec.styles \o rec.regions) THEN "DuplicateXmlId"
  ELSE IF ~(Range(rec.srefs) \subseteq Range(rec.styles)) THEN "DanglingStyleReference"
  ELSE IF ~(Range(rec.rrefs) \subseteq Range(rec.regions)) THEN "DanglingRegionReference"
  ELSE IF ~(Range(rec.regions) \subseteq Range(rec.rrefs)) THEN "RegionDefinedButNeverReferenced"
  ELSE "ok"

-----------------------------------------------------------------------------
(* Design model of the region table *)
(* A layout is "none", "A", "B" (two different positioned layouts), "D" (equal *)
(* to the default bottom region) or "W" (raw WebVTT settings only: nothing a   *)
(* region could carry).  c = [set, lang, cap1, cap2, node] (node: a styled     *)
(* span of caption 1 with its own layout).                                      *)
Positioned(l) == l \in {"A", "B", "D"}
\* encounter order of _collect_unique_regions: language, caption, its nodes, next caption
Encounter(c) == <<c.lang, c.cap1, c.node, c.cap2>>
RECURSIVE Uniq(_, _)
Uniq(s, seen) == IF s = <<>> THEN <<>>
                 ELSE IF Head(s) \in seen THEN Uniq(Tail(s), seen)
                 ELSE <<Head(s)>> \o Uniq(Tail(s), seen \cup {Head(s)})
\* regions created: unique layouts minus none / default, those with nothing to write skipped
Created(c) == SelectSeq(Uniq(Encounter(c), {"none", "D"}), LAMBDA l : l # "W")
IdOf(c, l) == LET cr == Created(c)
                  hits == {k \in 1..Len(cr) : cr[k] = l} IN
              IF hits = {} THEN "bottom" ELSE "r" \o ToString((CHOOSE k \in hits : TRUE) - 1)
Truthy(l) == l # "none"
\* get_positioning_info: first truthy of node, caption, language, set; then the map, else default
Lookup(c, chain) == LET t == SelectSeq(chain, Truthy) IN IdOf(c, IF t = <<>> THEN "none" ELSE t[1])
ModelRefs(c) == << Lookup(c, <<c.lang, c.set>>),                 \* div
                   Lookup(c, <<c.cap1, c.lang, c.set>>),        \* p 1
                   Lookup(c, <<c.cap2, c.lang, c.set>>) >>      \* p 2
                \o (IF Truthy(c.node) THEN <<Lookup(c, <<c.node, c.cap1, c.lang, c.set>>)>> ELSE <<>>)
ModelRegionsAfterCleanup(c) ==
  SelectSeq([k \in 1..Len(Created(c)) |-> "r" \o ToString(k - 1)] \o <<"bottom">>,
            LAMBDA id : id \in Range(ModelRefs(c)))
ModelDoc(c) ==
  [wf |-> TRUE, root_ok |-> TRUE,
   divs |-> <<[lang |-> "en", region |-> ModelRefs(c)[1],
               ps |-> <<[begin |-> TRUE, end |-> TRUE], [begin |-> TRUE, end |-> TRUE]>>]>>,
   styles |-> <<"default">>, regions |-> ModelRegionsAfterCleanup(c),
   srefs |-> <<"default">>, rrefs |-> ModelRefs(c),
   want |-> <<"en">>, langs |-> <<"en">>, keys |-> << <<"k1", "k2">> >>, merge |-> FALSE]
=============================================================================
