SPECIFICATION Spec
CONSTANTS
  MaxLen = 5
  Emit = TRUE
INVARIANT LoopMeetsClosedForm
INVARIANT Idempotent
INVARIANT Conserves
INVARIANT VerdictAcceptsModel
INVARIANT EmitCase
CHECK_DEADLOCK FALSE
