SPECIFICATION Spec
CONSTANTS
  AsFound = FALSE
  Emit = TRUE
INVARIANT ModelMeetsRequirement
INVARIANT EmitCase
CHECK_DEADLOCK FALSE
