------------------------------- MODULE MC_Chain -------------------------------
(* All chains up to MaxLen over the five formats, cue times on the residue     *)
(* grid: the hop abstraction (truncate to the format's resolution; SAMI sets   *)
(* the final end to start + 4 s) composed along the chain equals the closed    *)
(* form ExpectLang, and a second pass is the identity.  Chains are emitted.    *)
EXTENDS Chain, Json
CONSTANTS MaxLen, Emit

Residues == {0, 1, 999, 1000, 39999, 40000, 40001}
\* two cues: (a, a + 2 s) and (b + 5 s, b + 7 s)
Cues(a, b) == << [s |-> FromSmall(a), e |-> FromSmall(a + 2000000), lines |-> << <<120>> >>],
                 [s |-> FromSmall(b + 5000000), e |-> FromSmall(b + 7000000), lines |-> << <<121>> >>] >>

\* one abstract hop on a cue list
HopAbs(f, cues) ==
  LET r == Res(f) IN
  [k \in 1..Len(cues) |->
     [s |-> Trunc(r, cues[k].s),
      e |-> IF f = "SAMI" /\ k = Len(cues) THEN Add(Trunc(r, cues[k].s), FourSeconds) ELSE Trunc(r, cues[k].e),
      lines |-> cues[k].lines]]
RECURSIVE RunAbs(_, _)
RunAbs(chain, cues) == IF chain = <<>> THEN cues ELSE RunAbs(Tail(chain), HopAbs(Head(chain), cues))

VARIABLES chain, a, b
Init == chain = <<>> /\ a \in Residues /\ b \in Residues
Next == Len(chain) < MaxLen /\ \E f \in Formats : chain' = Append(chain, f) /\ UNCHANGED <<a, b>>
Spec == Init /\ [][Next]_<<chain, a, b>>

StripCues(c) == [k \in 1..Len(c) |-> [s |-> c[k].s, e |-> c[k].e, lines |-> NormLines(c[k].lines, TRUE)]]
ClosedForm == chain # <<>> =>
  StripCues(RunAbs(chain, Cues(a, b))) = ExpectLang(Cues(a, b), chain, Len(chain))
SecondPassIdentity == RunAbs(chain, RunAbs(chain, Cues(a, b))) = RunAbs(chain, Cues(a, b))
EmitCase == IF Emit /\ chain # <<>> /\ a = 0 /\ b = 0 THEN PrintT("CASE " \o ToJson([chain |-> chain])) ELSE TRUE
=============================================================================
