SPECIFICATION Spec
CONSTANTS
  MaxTok = 3
  MaxLines = 2
  Emit = TRUE
INVARIANT XmlRoundTrip
INVARIANT VttRoundTrip
INVARIANT VttNoTerminator
INVARIANT EmitCase
CHECK_DEADLOCK FALSE
