SPECIFICATION Spec
CONSTANTS
  MaxCaps = 3
  JoinAtMost = 5
INVARIANT TimingModelMeetsRequirement
CHECK_DEADLOCK FALSE
