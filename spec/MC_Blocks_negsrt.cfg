SPECIFICATION Spec
CONSTANT MaxBlocks = 3
CONSTANT AsFound = FALSE
CONSTANT AsFoundSrt = TRUE
CONSTANT Emit = FALSE
INVARIANT ReadersMeetRequirement
INVARIANT EmitCase
CHECK_DEADLOCK FALSE
