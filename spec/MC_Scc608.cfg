SPECIFICATION Spec
CONSTANTS
  Depth = 4
INVARIANT TypeOK
INVARIANT NoInvention
INVARIANT GroupsPartition
INVARIANT EventsOrdered
CHECK_DEADLOCK FALSE
