SPECIFICATION Spec
CONSTANTS
  Emit = TRUE
INVARIANT FormatterMeetsRequirement
INVARIANT RequirementIsTight
INVARIANT EmitCase
CHECK_DEADLOCK FALSE
