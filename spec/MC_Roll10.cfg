SPECIFICATION Spec
CONSTANTS
  MaxEvents = 10
  FlushOnSwitch = TRUE
INVARIANT Conservation
INVARIANT NoEmptyCaption
INVARIANT Continuity
CHECK_DEADLOCK FALSE
