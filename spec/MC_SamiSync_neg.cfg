SPECIFICATION Spec
CONSTANTS
  MaxCues = 3
  Falsy0 = TRUE
INVARIANT BlankSyncRule
CHECK_DEADLOCK FALSE
