------------------------------ MODULE MC_Styles ------------------------------
(* The DFXP writer's style table (C11, KF-C11-4).  Three styles a < b < c, each  *)
(* may build on one other style (style="..."), one of them carries italics; a    *)
(* span refers to one of them.  The writer emits the styles in some order and     *)
(* keeps a reference only if the style it names is already in the document.       *)
(*   AsFound = TRUE : id order (what DFXPWriter did)                              *)
(*   AsFound = FALSE: referenced styles first (_referenced_styles_first)          *)
(* Requirement: for every acyclic reference graph the span is italic after the    *)
(* conversion exactly when it was before.  Every case is emitted for replay       *)
(* (DFXP -> DFXP and DFXP -> WebVTT) by harness/c11.py, family "sg".              *)
EXTENDS Naturals, Sequences, FiniteSets, TLC, Json
CONSTANTS AsFound, Emit

Ids == <<"a", "b", "c">>                \* in id order
IdSet == {"a", "b", "c"}
Refs == {f \in [IdSet -> IdSet \cup {"none"}] : \A s \in IdSet : f[s] # s}
Perms == {p \in [1..3 -> IdSet] : \A i, j \in 1..3 : i # j => p[i] # p[j]}

VARIABLES ref, italic, target, deforder
vars == <<ref, italic, target, deforder>>

\* does style s reach the italic style along r (at most three hops; cycles end the walk)
RECURSIVE Reaches(_, _, _)
Reaches(s, r, fuel) == \/ s = italic
                       \/ (fuel > 0 /\ r[s] # "none" /\ Reaches(r[s], r, fuel - 1))
Acyclic(r) == \A s \in IdSet : ~(\E n \in 1..3 : LET RECURSIVE Hop(_, _)
                                                    Hop(x, k) == IF k = 0 THEN x ELSE IF r[x] = "none" THEN "none" ELSE Hop(r[x], k - 1)
                                                IN Hop(s, n) = s)

\* the order in which the writer emits the styles
RECURSIVE Place(_, _)
Place(s, st) ==
  IF s \in st.placed THEN st
  ELSE LET st1 == [st EXCEPT !.placed = @ \cup {s}]
           st2 == IF ref[s] # "none" THEN Place(ref[s], st1) ELSE st1
       IN [st2 EXCEPT !.out = Append(@, s)]
WriteOrder == IF AsFound THEN Ids
              ELSE Place("c", Place("b", Place("a", [placed |-> {}, out |-> <<>>]))).out
\* references that survive: the named style is already in the document
Kept == [s \in IdSet |->
           LET pos == CHOOSE i \in 1..3 : WriteOrder[i] = s IN
           IF ref[s] # "none" /\ (\E j \in 1..(pos - 1) : WriteOrder[j] = ref[s]) THEN ref[s] ELSE "none"]

Init == ref \in Refs /\ italic \in IdSet /\ target \in IdSet /\ deforder \in Perms
Next == UNCHANGED vars
Spec == Init /\ [][Next]_vars

ModelMeetsRequirement == Acyclic(ref) => (Reaches(target, Kept, 3) = Reaches(target, ref, 3))
EmitCase == IF Emit /\ Acyclic(ref)
            THEN PrintT("CASE " \o ToJson([ref |-> ref, italic |-> italic, target |-> target,
                                            order |-> [i \in 1..3 |-> deforder[i]], want |-> Reaches(target, ref, 3)]))
            ELSE TRUE
=============================================================================
