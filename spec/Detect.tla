------------------------------- MODULE Detect -------------------------------
(***************************************************************************)
(* Format detection (pycaption.detect_format and the six Reader.detect).    *)
(*                                                                          *)
(* Requirement level (what C20 demands, relative to the readers' own        *)
(* detect):  Probe order, totality, the empty-string error, and             *)
(* self-recognition of writer output.                                       *)
(*                                                                          *)
(* Design level (no verdicts, used for exhaustive search and for choosing   *)
(* the replay corpus): the six sniffers as predicates over token strings.   *)
(***************************************************************************)
EXTENDS Naturals, Sequences, FiniteSets, TLC

\* documented probe order
Order == <<"DFXP", "MicroDVD", "WebVTT", "SAMI", "SRT", "SCC">>

Outcomes == {"accept", "reject", "raise"}

-----------------------------------------------------------------------------
(* Requirement *)

\* index of the first accepting reader, 0 if none
FirstAccepting(outs) ==
  LET hits == {k \in 1..Len(outs) : outs[k] = "accept"} IN
  IF hits = {} THEN 0 ELSE CHOOSE k \in hits : \A j \in hits : k <= j

Expected(outs) ==
  LET k == FirstAccepting(outs) IN IF k = 0 THEN "none" ELSE Order[k]

\* the ordered probe stops at the first accepting reader: a sniffer behind it is
\* never consulted, so only the outcomes up to that point matter for "never raises"
Consulted(outs) ==
  LET k == FirstAccepting(outs) IN IF k = 0 THEN 1..Len(outs) ELSE 1..k

\* verdict for one observed probe of a string
\*   rec.empty   : the string was ""
\*   rec.outs    : outcome of each reader's own detect, in Order
\*   rec.result  : what detect_format returned: a format name, "none", or "raise:<Type>"
VerdictProbe(rec) ==
  IF rec.empty THEN
     IF rec.result = "raise:CaptionReadNoCaptions" THEN "ok" ELSE "EmptyMustRaiseNoCaptions"
  ELSE IF Len(rec.outs) # Len(Order) \/ \E k \in 1..Len(rec.outs) : rec.outs[k] \notin Outcomes
       THEN "MalformedRecord"
  ELSE IF rec.result \notin ({"none"} \cup {Order[k] : k \in 1..Len(Order)}) THEN "DetectFormatRaised"
  ELSE IF rec.result # Expected(rec.outs) THEN "NotFirstAccepting"
  \* a sniffer that detect_format actually consults must not raise (one behind the
  \* first accepting reader is never called by the probe and is not constrained)
  ELSE IF \E k \in Consulted(rec.outs) : rec.outs[k] = "raise" THEN "ConsultedSnifferRaised"
  ELSE "ok"

\* verdict for one writer output: rec.fmt the writer's format, rec.detected what
\* detect_format said, rec.read whether that format's reader read the document
VerdictSelf(rec) ==
  IF rec.detected # rec.fmt THEN "OwnOutputNotRecognised"
  ELSE IF ~rec.read THEN "OwnOutputNotReadable"
  ELSE "ok"

Verdict(rec) ==
  IF rec.kind = "probe" THEN VerdictProbe(rec)
  ELSE IF rec.kind = "self" THEN VerdictSelf(rec)
  ELSE "UnknownRecordKind"

-----------------------------------------------------------------------------
(* Design model: sniffers over token strings *)

Tokens == {"D", "L", "NL", "LB", "RB", "AR", "SP", "WV", "SA", "TT", "SC"}
\* D digit, L letter, NL newline, LB '{', RB '}', AR '-->', SP space,
\* WV 'WEBVTT', SA '<sami', TT '</tt>', SC the Scenarist header text

\* split at NL the way str.splitlines does (no trailing empty line)
RECURSIVE SplitNL(_, _, _)
SplitNL(s, cur, acc) ==
  IF s = <<>> THEN (IF cur = <<>> THEN acc ELSE Append(acc, cur))
  ELSE IF Head(s) = "NL" THEN SplitNL(Tail(s), <<>>, Append(acc, cur))
  ELSE SplitNL(Tail(s), Append(cur, Head(s)), acc)
Lines(s) == SplitNL(s, <<>>, <<>>)

Contains(s, t) == \E k \in 1..Len(s) : s[k] = t
AllDigits(l) == l # <<>> /\ \A k \in 1..Len(l) : l[k] = "D"

\* longest run of D starting at position p
RECURSIVE DigitsFrom(_, _)
DigitsFrom(s, p) == IF p <= Len(s) /\ s[p] = "D" THEN 1 + DigitsFrom(s, p + 1) ELSE 0

MicroDvdPrefix(s) ==
  /\ Len(s) >= 1 /\ s[1] = "LB"
  /\ LET n == DigitsFrom(s, 2) IN
     /\ n >= 1
     /\ Len(s) >= 2 + n + 1 /\ s[2 + n] = "RB" /\ s[3 + n] = "LB"
     /\ LET m == DigitsFrom(s, 4 + n) IN
        m >= 1 /\ Len(s) >= 4 + n + m /\ s[4 + n + m] = "RB"

\* SrtGuard = FALSE models SRTReader.detect as found at the pinned commit
\* (lines[1] indexed without a length check); TRUE models the repaired code.
SniffModel(fmt, s, SrtGuard) ==
  CASE fmt = "DFXP"     -> IF Contains(s, "TT") THEN "accept" ELSE "reject"
    [] fmt = "MicroDVD" -> IF MicroDvdPrefix(s) THEN "accept" ELSE "reject"
    [] fmt = "WebVTT"   -> IF Contains(s, "WV") THEN "accept" ELSE "reject"
    [] fmt = "SAMI"     -> IF Contains(s, "SA") THEN "accept" ELSE "reject"
    [] fmt = "SRT"      -> LET ls == Lines(s) IN
                           IF ls = <<>> THEN "raise"
                           ELSE IF ~AllDigits(ls[1]) THEN "reject"
                           ELSE IF Len(ls) < 2 THEN (IF SrtGuard THEN "reject" ELSE "raise")
                           ELSE IF Contains(ls[2], "AR") THEN "accept" ELSE "reject"
    [] fmt = "SCC"      -> LET ls == Lines(s) IN
                           IF ls = <<>> THEN "raise"
                           ELSE IF ls[1] = <<"SC">> THEN "accept" ELSE "reject"

ModelOuts(s, g) == [k \in 1..Len(Order) |-> SniffModel(Order[k], s, g)]

\* the ordered probe, as a loop over readers: stops at the first accept, and an
\* exception in a sniffer propagates
RECURSIVE ProbeFrom(_, _)
ProbeFrom(outs, k) ==
  IF k > Len(outs) THEN "none"
  ELSE IF outs[k] = "raise" THEN "raise:IndexError"
  ELSE IF outs[k] = "accept" THEN Order[k]
  ELSE ProbeFrom(outs, k + 1)

ModelDetect(s, g) ==
  IF s = <<>> THEN "raise:CaptionReadNoCaptions" ELSE ProbeFrom(ModelOuts(s, g), 1)

ModelRecord(s, g) ==
  [kind |-> "probe", empty |-> (s = <<>>), outs |-> ModelOuts(s, g), result |-> ModelDetect(s, g)]
=============================================================================
