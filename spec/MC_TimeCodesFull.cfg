SPECIFICATION Spec
CONSTANTS
  Emit = TRUE
  Full = TRUE
INVARIANT HmsSane
INVARIANT HmsStep
INVARIANT OffSane
INVARIANT FrameSane
INVARIANT WriteReadSane
INVARIANT EmitCase
CHECK_DEADLOCK FALSE
