SPECIFICATION Spec
CONSTANTS
  MaxEvents = 8
  FlushOnSwitch = FALSE
INVARIANT Conservation
INVARIANT NoEmptyCaption
INVARIANT Continuity
CHECK_DEADLOCK FALSE
