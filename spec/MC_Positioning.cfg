SPECIFICATION Spec
CONSTANTS
  PlainNodeLayoutLost = TRUE
  RestrictToStyled = TRUE
  Emit = TRUE
INVARIANT RoundTripKeepsEffectiveLayout
INVARIANT EmitCase
CHECK_DEADLOCK FALSE
