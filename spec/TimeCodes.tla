------------------------------ MODULE TimeCodes ------------------------------
(***************************************************************************)
(* Timestamp grammars of the five text formats, read (C01) and written      *)
(* (C02).  Spellings are records of digit sequences (numbers 0..9, most     *)
(* significant first); instants are BigNat microseconds.                    *)
(***************************************************************************)
EXTENDS Naturals, Integers, Sequences, BigNat

-----------------------------------------------------------------------------
(* 1. What a spelling denotes                                                *)
(*  [kind |-> "hms", h, m, s, frac, frames]  hh:mm:ss[.frac | :frames]        *)
(*        h = <<>>: hour field absent (WebVTT); frac = <<>>, frames = <<>>:   *)
(*        no fraction / frame field                                           *)
(*  [kind |-> "off", i, f, metric]           i[.f] metric, metric in h m s ms f *)
(*  [kind |-> "frame", n]                    MicroDVD frame number              *)
(*  [kind |-> "ms", n]                       SAMI sync start                    *)

Million == <<0, 100>>                                  \* 10^6
Sec(h, m, s) == Add(Add(MulSmall(FromDigits(h), 3600), MulSmall(FromDigits(m), 60)), FromDigits(s))
\* fraction of a second -> microseconds, digits beyond the sixth dropped
FracUs(f) == IF f = <<>> THEN <<>>
             ELSE LET g == IF Len(f) > 6 THEN SubSeq(f, 1, 6) ELSE f IN MulPow10(FromDigits(g), 6 - Len(g))
\* frames at 30 per second, sub-microsecond remainder dropped
FramesUs(ff) == DivSmall(MulPow10(FromDigits(ff), 6), 30)

DenoteHMS(sp) == Add(MulPow10(Sec(sp.h, sp.m, sp.s), 6),
                     IF sp.frames # <<>> THEN FramesUs(sp.frames) ELSE FracUs(sp.frac))

RECURSIVE DivPow10(_, _)
DivPow10(x, k) == IF k = 0 THEN x
                  ELSE IF k >= 4 THEN DivPow10(DivSmall(x, 10000), k - 4)
                  ELSE DivSmall(x, IF k = 1 THEN 10 ELSE IF k = 2 THEN 100 ELSE 1000)

\* (i + f/10^k) * unit, floored to the microsecond
DenoteOff(sp) ==
  LET k == Len(sp.f)
      scaled == FromDigits(sp.i \o sp.f)            \* value * 10^k
  IN CASE sp.metric = "h"  -> DivPow10(MulPow10(MulSmall(scaled, 36), 8), k)
       [] sp.metric = "m"  -> DivPow10(MulPow10(MulSmall(scaled, 6), 7), k)
       [] sp.metric = "s"  -> DivPow10(MulPow10(scaled, 6), k)
       [] sp.metric = "ms" -> DivPow10(MulPow10(scaled, 3), k)
       [] sp.metric = "f"  -> DivSmall(DivPow10(MulPow10(scaled, 6), k), 30)

\* fps = fn / fd (decimal spelling of the header, e.g. 23976/1000)
DenoteFrame(sp, fn, fd) == DivSmall(MulSmall(MulPow10(FromDigits(sp.n), 6), fd), fn)

Denote(sp, rec) ==
  CASE sp.kind = "hms"   -> DenoteHMS(sp)
    [] sp.kind = "off"   -> DenoteOff(sp)
    [] sp.kind = "frame" -> DenoteFrame(sp, rec.fps[1], rec.fps[2])
    [] sp.kind = "ms"    -> MulSmall(FromDigits(sp.n), 1000)

-----------------------------------------------------------------------------
(* 2. Reading (C01)                                                          *)
(* rec.cues : sequence of [b, e, dur, txt]: begin / end spellings, dur = the  *)
(*            end is given as a duration, txt = the cue has visible text      *)
(* rec.shift: BigInt milliseconds added by the reader option (WebVTT)         *)
(* rec.fps  : <<fn, fd>>                                                       *)
(* rec.obs  : [ok, caps]; caps = sequence of [s, e] with s, e =               *)
(*            [int |-> BOOLEAN, v |-> BigInt] (exact observed value, int iff   *)
(*            it is an integer number of microseconds)                        *)

Shifted(t, rec) == IAdd(MkInt(1, t), IMulSmall(rec.shift, 1000))
ExpStart(c, rec) == Shifted(Denote(c.b, rec), rec)
ExpEnd(c, rec) == IF c.dur THEN Shifted(Add(Denote(c.b, rec), Denote(c.e, rec)), rec)
                  ELSE Shifted(Denote(c.e, rec), rec)

Visible(cues) == SelectSeq(cues, LAMBDA c : c.txt)

VerdictCues(rec) ==
  LET exp == Visible(rec.cues) IN
  IF ~rec.obs.ok THEN "WellFormedDocumentRefused"
  ELSE IF Len(rec.obs.caps) # Len(exp) THEN "NotOneCaptionPerNonEmptyCue"
  ELSE IF \E k \in 1..Len(exp) : ~rec.obs.caps[k].s.int \/ ~rec.obs.caps[k].e.int THEN "NotIntegerMicroseconds"
  ELSE IF \E k \in 1..Len(exp) : rec.obs.caps[k].s.v # ExpStart(exp[k], rec) THEN "StartInstantWrong"
  ELSE IF \E k \in 1..Len(exp) : rec.obs.caps[k].e.v # ExpEnd(exp[k], rec) THEN "EndInstantWrong"
  ELSE "ok"

\* SAMI: rec.syncs = the syncs of one language in document order, [t, blank];
\* a cue lasts until the next sync of its language, the last one four seconds
RECURSIVE SamiExpect(_, _)
SamiExpect(syncs, rec) ==
  IF syncs = <<>> THEN <<>>
  ELSE LET x == Head(syncs)
           st == Denote(x.t, rec)
           en == IF Len(syncs) > 1 THEN Denote(syncs[2].t, rec) ELSE Add(st, MulSmall(Million, 4))
       IN (IF x.blank THEN <<>> ELSE <<[s |-> MkInt(1, st), e |-> MkInt(1, en)]>>) \o SamiExpect(Tail(syncs), rec)

VerdictSami(rec) ==
  LET exp == SamiExpect(rec.syncs, rec) IN
  IF ~rec.obs.ok THEN "WellFormedDocumentRefused"
  ELSE IF Len(rec.obs.caps) # Len(exp) THEN "NotOneCaptionPerNonEmptyCue"
  ELSE IF \E k \in 1..Len(exp) : ~rec.obs.caps[k].s.int \/ ~rec.obs.caps[k].e.int THEN "NotIntegerMicroseconds"
  ELSE IF \E k \in 1..Len(exp) : rec.obs.caps[k].s.v # exp[k].s THEN "StartInstantWrong"
  ELSE IF \E k \in 1..Len(exp) : rec.obs.caps[k].e.v # exp[k].e THEN "EndInstantWrong"
  ELSE "ok"

VerdictRead(rec) == IF rec.fmt = "SAMI" THEN VerdictSami(rec) ELSE VerdictCues(rec)

-----------------------------------------------------------------------------
(* 3. Writing (C02)                                                          *)
(* rec.caps : input captions [s, e] with s, e = [n |-> BigNat, d |-> 1..1000]  *)
(*            the exact rational number of microseconds n/d                   *)
(* rec.out  : written cues in document order, [s, e] with                      *)
(*            s, e = [plain, f] : plain = the field syntax is the format's     *)
(*            (digit strings of the right widths and separators), f = the      *)
(*            digit sequences of the fields                                   *)
(*            hms-style: f = <<hh, mm, ss, mmm>> ; MicroDVD: f = <<frame>>     *)
(* rec.mode : "exact" | "merge" | "split"                                      *)
(* rec.parts: for "split": parts[k] = number of distinct layouts of caption k *)

FloorMs(t) == DivSmall(DivSmall(t.n, t.d), 1000)

\* t * 25 / 10^6 floored: n*25 / (d * 10^6)
Frame25(t) == DivPow10(DivSmall(MulSmall(t.n, 25), t.d), 6)

FieldVal(ds) == FromDigits(ds)
InRange(ds, lim) == Lt(FromDigits(ds), FromSmall(lim))

\* does the written hms field group denote floor(t) to the millisecond, with carries
HmsOk(w, t, hourOptional) ==
  /\ w.plain /\ Len(w.f) = 4
  /\ Len(w.f[2]) = 2 /\ Len(w.f[3]) = 2 /\ Len(w.f[4]) = 3
  /\ (Len(w.f[1]) >= 2 \/ (hourOptional /\ w.f[1] = <<>>))
  /\ InRange(w.f[2], 60) /\ InRange(w.f[3], 60)
  /\ Add(MulSmall(Sec(w.f[1], w.f[2], w.f[3]), 1000), FromDigits(w.f[4])) = FloorMs(t)

FrameOk(w, t) == w.plain /\ Len(w.f) = 1 /\ w.f[1] # <<>> /\ FromDigits(w.f[1]) = Frame25(t)

StampOk(w, t, rec) ==
  IF rec.fmt = "MicroDVD" THEN FrameOk(w, t) ELSE HmsOk(w, t, rec.fmt = "WebVTT")

CueOk(o, c, rec) == StampOk(o.s, c.s, rec) /\ StampOk(o.e, c.e, rec)
SameSpan(a, b) == a.s = b.s /\ a.e = b.e

\* cue structure: obs is caps with (merge) some runs of consecutive captions that have
\* identical start and end collapsed into one cue, or (split) caption k repeated
\* 1..parts[k] times, or (exact) neither
RECURSIVE Struct(_, _, _, _)
Struct(caps, out, rec, k) ==
  IF caps = <<>> THEN out = <<>>
  ELSE IF out = <<>> THEN FALSE
  ELSE /\ CueOk(Head(out), Head(caps), rec)
       /\ \/ Struct(Tail(caps), Tail(out), rec, k + 1)
          \/ /\ rec.mode = "merge" /\ Len(caps) > 1 /\ SameSpan(caps[1], caps[2])
             /\ Struct(Tail(caps), out, rec, k + 1)
          \/ /\ rec.mode = "split" /\ rec.parts[k] > 1 /\ Len(out) > 1
             /\ Struct(<<Head(caps)>> \o Tail(caps), Tail(out),
                       [rec EXCEPT !.parts[k] = rec.parts[k] - 1], k)

\* first failing aspect, for diagnosis
RECURSIVE FirstBadStamp(_, _, _)
FirstBadStamp(caps, out, rec) ==
  IF caps = <<>> \/ out = <<>> THEN "CueStructure"
  ELSE IF ~StampOk(Head(out).s, Head(caps).s, rec) THEN
         (IF ~Head(out).s.plain THEN "StartFieldSyntax" ELSE "StartFieldValue")
  ELSE IF ~StampOk(Head(out).e, Head(caps).e, rec) THEN
         (IF ~Head(out).e.plain THEN "EndFieldSyntax" ELSE "EndFieldValue")
  ELSE FirstBadStamp(Tail(caps), Tail(out), rec)

VerdictWriteCues(rec) ==
  IF ~rec.ok THEN "WriterRaised"
  ELSE IF Struct(rec.caps, rec.out, rec, 1) THEN "ok"
  ELSE IF Len(rec.caps) = Len(rec.out) THEN FirstBadStamp(rec.caps, rec.out, rec)
  ELSE "CueStructure"

\* SAMI: rec.syncs = the paragraphs of one language in document order,
\* [ms |-> [plain, ds], blank]; the end of cue i is conveyed by a blank sync at its end
\* millisecond unless cue i+1 starts at that millisecond; nothing for the last end
RECURSIVE SamiWant(_)
SamiWant(caps) ==
  IF caps = <<>> THEN <<>>
  ELSE LET c == Head(caps) IN
       <<[ms |-> FloorMs(c.s), blank |-> FALSE]>> \o
       (IF Len(caps) > 1 /\ FloorMs(caps[2].s) # FloorMs(c.e)
           THEN <<[ms |-> FloorMs(c.e), blank |-> TRUE]>> ELSE <<>>) \o
       SamiWant(Tail(caps))

VerdictWriteSami(rec) ==
  LET want == SamiWant(rec.caps) IN
  IF ~rec.ok THEN "WriterRaised"
  ELSE IF \E k \in 1..Len(rec.syncs) : ~rec.syncs[k].ms.plain THEN "SyncStartNotInteger"
  ELSE IF Len(rec.syncs) # Len(want) THEN
       (IF Len(SelectSeq(rec.syncs, LAMBDA x : ~x.blank)) # Len(rec.caps) THEN "CueStructure" ELSE "BlankSyncRule")
  ELSE IF \E k \in 1..Len(want) : rec.syncs[k].blank # want[k].blank THEN "BlankSyncRule"
  ELSE IF \E k \in 1..Len(want) : FromDigits(rec.syncs[k].ms.ds) # want[k].ms THEN
       (IF \E k \in 1..Len(want) : ~want[k].blank /\ FromDigits(rec.syncs[k].ms.ds) # want[k].ms
           THEN "SyncStartValue" ELSE "BlankSyncValue")
  ELSE "ok"

VerdictWrite(rec) == IF rec.fmt = "SAMI" THEN VerdictWriteSami(rec) ELSE VerdictWriteCues(rec)

Verdict(rec) == IF rec.k = "read" THEN VerdictRead(rec)
                ELSE IF rec.k = "write" THEN VerdictWrite(rec) ELSE "UnknownRecordKind"
=============================================================================
