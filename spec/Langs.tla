-------------------------------- MODULE Langs --------------------------------
(***************************************************************************)
(* Languages (C14): each language's cue list stays under its language, in   *)
(* document order, through the DFXP and SAMI writers and readers; language  *)
(* options select exactly one language; SAMI sync placement.                *)
(*                                                                          *)
(* A set is a sequence of [lang, cues], cues a sequence of [t, x]: start in  *)
(* milliseconds (a natural number) and a text identity (positive integer).  *)
(* A SAMI body is a sequence of syncs [t, ps], ps a sequence of [lang, x]    *)
(* with x = 0 for a blank paragraph.  A DFXP body is a sequence of divs      *)
(* [lang, cues].                                                             *)
(***************************************************************************)
EXTENDS Naturals, Integers, Sequences, FiniteSets, TLC

Range(s) == {s[k] : k \in 1..Len(s)}
LangsOf(set) == [k \in 1..Len(set) |-> set[k].lang]

-----------------------------------------------------------------------------
(* Requirement: written SAMI *)
SortedBody(b) == \A k \in 1..(Len(b) - 1) : b[k].t <= b[k + 1].t
\* non-blank paragraphs of language l in document order, with the start of their sync
RECURSIVE ParasOf(_, _)
ParasOf(b, l) ==
  IF b = <<>> THEN <<>>
  ELSE LET here == SelectSeq(Head(b).ps, LAMBDA p : p.lang = l /\ p.x # 0) IN
       [k \in 1..Len(here) |-> [t |-> Head(b).t, x |-> here[k].x]] \o ParasOf(Tail(b), l)
FaithfulSami(set, b) == \A k \in 1..Len(set) : ParasOf(b, set[k].lang) = set[k].cues
NoForeignLanguage(set, b) == \A k \in 1..Len(b) : \A j \in 1..Len(b[k].ps) : b[k].ps[j].lang \in Range(LangsOf(set))

\* order of first appearance of the languages in a SAMI body / a DFXP body
RECURSIVE FirstSeen(_, _)
FirstSeen(ls, seen) == IF ls = <<>> THEN <<>>
                       ELSE IF Head(ls) \in seen THEN FirstSeen(Tail(ls), seen)
                       ELSE <<Head(ls)>> \o FirstSeen(Tail(ls), seen \cup {Head(ls)})
RECURSIVE BodyLangs(_)
BodyLangs(b) == IF b = <<>> THEN <<>> ELSE [k \in 1..Len(Head(b).ps) |-> Head(b).ps[k].lang] \o BodyLangs(Tail(b))

\* what a reading must return: rec.read = sequence of [lang, cues] in the order the
\* reader lists the languages
CuesOfLang(read, l) == LET hits == {k \in 1..Len(read) : read[k].lang = l} IN
                       IF hits = {} THEN <<>> ELSE read[CHOOSE k \in hits : TRUE].cues

VerdictSamiRT(rec) ==
  IF ~rec.ok THEN "WriteOrReadFailed"
  ELSE IF ~SortedBody(rec.body) THEN "SyncBlocksOutOfTimeOrder"
  ELSE IF ~NoForeignLanguage(rec.set, rec.body) THEN "ParagraphUnderUnknownLanguage"
  ELSE IF ~FaithfulSami(rec.set, rec.body) THEN "ParagraphNotInTheSyncOfItsStart"
  \* a language without any cue leaves no paragraph in a SAMI body: it may vanish
  ELSE IF Range(LangsOf(rec.read)) # {rec.set[k].lang : k \in {j \in 1..Len(rec.set) : rec.set[j].cues # <<>>}}
          \/ Len(rec.read) # Cardinality({j \in 1..Len(rec.set) : rec.set[j].cues # <<>>}) THEN "LanguageLostOrAdded"
  ELSE IF LangsOf(rec.read) # FirstSeen(BodyLangs(rec.body), {}) THEN "LanguagesNotInOrderOfFirstAppearance"
  ELSE IF \E k \in 1..Len(rec.set) : CuesOfLang(rec.read, rec.set[k].lang) # rec.set[k].cues THEN "CueMovedLostOrReordered"
  ELSE "ok"

\* DFXP: rec.body = sequence of [lang, cues] (one per div, scanned independently)
VerdictDfxpRT(rec) ==
  IF ~rec.ok THEN "WriteOrReadFailed"
  ELSE IF [k \in 1..Len(rec.body) |-> rec.body[k].lang] # LangsOf(rec.set) THEN "NotOneDivPerLanguageInOrder"
  ELSE IF \E k \in 1..Len(rec.set) : rec.body[k].cues # rec.set[k].cues THEN "CueWrittenUnderWrongLanguage"
  ELSE IF LangsOf(rec.read) # LangsOf(rec.set) THEN "LanguagesNotInOrderOfFirstAppearance"
  ELSE IF \E k \in 1..Len(rec.set) : rec.read[k].cues # rec.set[k].cues THEN "CueMovedLostOrReordered"
  ELSE "ok"

\* language options: rec.want = the cues of the named language, rec.got = what came out,
\* rec.gotlangs = languages present in the output / result
VerdictOption(rec) ==
  \* a name the set does not contain selects nothing (refusing it is as good): cues of a language
  \* that merely resembles the name (a prefix of its code) are not "exactly the named language"
  IF "absent" \in DOMAIN rec /\ rec.absent
    THEN (IF rec.ok /\ rec.got # <<>> THEN "OptionSelectedALanguageNotNamed" ELSE "ok")
  ELSE IF ~rec.ok THEN "OptionFailed"
  ELSE IF rec.gotlangs # <<rec.name>> THEN "OptionDidNotSelectExactlyTheNamedLanguage"
  ELSE IF rec.got # rec.want THEN "OptionSelectedOtherCues"
  ELSE "ok"

\* DFXP reading: rec.divs = sequence of [lang ("" = no xml:lang), cues]; rec.tt = xml:lang of
\* <tt> ("" = absent); rec.default = configured default; rec.read as above
Resolve(rec, d) == IF d.lang # "" THEN d.lang ELSE IF rec.tt # "" THEN rec.tt ELSE rec.default
RECURSIVE Gather(_, _, _)
Gather(rec, divs, l) == IF divs = <<>> THEN <<>>
                        ELSE (IF Resolve(rec, Head(divs)) = l THEN Head(divs).cues ELSE <<>>) \o Gather(rec, Tail(divs), l)
VerdictDfxpLang(rec) ==
  LET resolved == [k \in 1..Len(rec.divs) |-> Resolve(rec, rec.divs[k])]
      want == FirstSeen(resolved, {}) IN
  IF ~rec.ok THEN "ReadFailed"
  ELSE IF LangsOf(rec.read) # want THEN "DivLanguageFallbackWrong"
  ELSE IF \E k \in 1..Len(want) : rec.read[k].cues # Gather(rec, rec.divs, want[k]) THEN "CuesOfALanguageLost"
  ELSE "ok"

\* SAMI reading of an authored body: rec.body as above (the language each paragraph is
\* declared under, by class or by lang attribute), rec.read what the reader returned
VerdictSamiRead(rec) ==
  LET want == FirstSeen(BodyLangs(SelectSeq(rec.body, LAMBDA sy : TRUE)), {})
      nonblank == SelectSeq(want, LAMBDA l : ParasOf(rec.body, l) # <<>>)
      \* a language whose paragraphs are all blank may be listed with no captions or not at all
      got == SelectSeq(LangsOf(rec.read), LAMBDA l : CuesOfLang(rec.read, l) # <<>> \/ l \in Range(nonblank)) IN
  IF ~rec.ok THEN "ReadFailed"
  ELSE IF Range(got) # Range(nonblank) THEN "LanguageLostOrAdded"
  ELSE IF got # nonblank THEN "LanguagesNotInOrderOfFirstAppearance"
  ELSE IF \E k \in 1..Len(nonblank) : CuesOfLang(rec.read, nonblank[k]) # ParasOf(rec.body, nonblank[k]) THEN "CueMovedLostOrReordered"
  ELSE "ok"

VerdictLang(rec) == CASE rec.k = "samirt" -> VerdictSamiRT(rec)
                      [] rec.k = "samiread" -> VerdictSamiRead(rec)
                      [] rec.k = "dfxprt" -> VerdictDfxpRT(rec)
                      [] rec.k = "option" -> VerdictOption(rec)
                      [] rec.k = "dfxplang" -> VerdictDfxpLang(rec)
                      [] OTHER -> "UnknownRecordKind"

-----------------------------------------------------------------------------
(* Design model of SAMIWriter: languages in order, the first one ("primary")   *)
(* appends sync blocks, the others look an existing block up or insert one      *)
InsertAt(s, k, x) == SubSeq(s, 1, k - 1) \o <<x>> \o SubSeq(s, k, Len(s))
MinS(S) == CHOOSE x \in S : \A y \in S : x <= y
MaxS(S) == CHOOSE x \in S : \A y \in S : x >= y
\* _recreate_sync for a non-primary language
\* lose = TRUE models the code as found: with no sync block yet, the new block was never attached
Place(body, t, p, lose) ==
  LET hit == {k \in 1..Len(body) : body[k].t = t} IN
  IF hit # {} THEN [body EXCEPT ![MinS(hit)].ps = Append(@, p)]
  ELSE LET earlier == {k \in 1..Len(body) : body[k].t < t}
           later   == {k \in 1..Len(body) : body[k].t > t} IN
       IF earlier # {} THEN InsertAt(body, MaxS(earlier) + 1, [t |-> t, ps |-> <<p>>])
       ELSE IF later # {} THEN InsertAt(body, MinS(later), [t |-> t, ps |-> <<p>>])
       ELSE IF lose THEN body ELSE <<[t |-> t, ps |-> <<p>>]>>
Put(body, primary, t, p, lose) == IF primary THEN Append(body, [t |-> t, ps |-> <<p>>]) ELSE Place(body, t, p, lose)

\* cues here carry an end: [t, e, x]; last = -1 stands for None
RECURSIVE WriteLang(_, _, _, _, _, _)
WriteLang(body, primary, l, cues, last, lose) ==
  IF cues = <<>> THEN body
  ELSE LET c == Head(cues)
           b1 == IF last >= 0 /\ c.t # last THEN Put(body, primary, last, [lang |-> l, x |-> 0], lose) ELSE body
           b2 == Put(b1, primary, c.t, [lang |-> l, x |-> c.x], lose)
       IN WriteLang(b2, primary, l, Tail(cues), c.e, lose)
RECURSIVE WriteSet(_, _, _, _)
WriteSet(body, set, k, lose) ==
  IF k > Len(set) THEN body
  ELSE WriteSet(WriteLang(body, k = 1, set[k].lang, set[k].cues, -1, lose), set, k + 1, lose)
ModelSami(set, lose) == WriteSet(<<>>, set, 1, lose)
StartsOnly(set) == [k \in 1..Len(set) |-> [lang |-> set[k].lang,
                      cues |-> [j \in 1..Len(set[k].cues) |-> [t |-> set[k].cues[j].t, x |-> set[k].cues[j].x]]]]
=============================================================================
