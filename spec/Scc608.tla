------------------------------- MODULE Scc608 -------------------------------
(***************************************************************************)
(* A reference CEA-608 caption decoder (C05, C06, C15, C16) and the          *)
(* requirements on what SCCReader returns.                                   *)
(*                                                                          *)
(* A program is a sequence of lines [tc, drop, syms]: tc = <<hh, mm, ss, ff>>, *)
(* drop = drop-frame timecode, syms = the code words after de-doubling, each  *)
(* a record with k (kind) and w (number of 4-hex-digit words it occupied on   *)
(* the wire: 1, or 2 when control codes are sent twice).                      *)
(*   PAC r c i   TO n   CH a b   SP x   EXT x   BS   MID i                     *)
(*   RCL ENM EDM EOC RDC RU n  CR   NOP (any other word)                        *)
(***************************************************************************)
EXTENDS Naturals, Integers, Sequences, FiniteSets, BigNat, TLC

Rows == 1..15
Cols == 0..31
Blank == [ch |-> 0, it |-> FALSE]
MidCell == [ch |-> -1, it |-> FALSE]
EmptyMem == [r \in Rows |-> [c \in Cols |-> Blank]]
Min2(a, b) == IF a <= b THEN a ELSE b
Max2(a, b) == IF a >= b THEN a ELSE b

InitSt == [ndm |-> EmptyMem, dm |-> EmptyMem, row |-> 15, col |-> 0, pen |-> FALSE,
           mode |-> "pop", ev |-> <<>>]

\* write into the memory the current mode addresses
Put(st, cell) ==
  IF st.mode = "pop"
     THEN [st EXCEPT !.ndm[st.row][st.col] = cell, !.col = Min2(st.col + 1, 31)]
     ELSE [st EXCEPT !.dm[st.row][st.col] = cell, !.col = Min2(st.col + 1, 31)]
Erase(st) ==
  IF st.col = 0 THEN st
  ELSE IF st.mode = "pop" THEN [st EXCEPT !.col = st.col - 1, !.ndm[st.row][st.col - 1] = Blank]
  ELSE [st EXCEPT !.col = st.col - 1, !.dm[st.row][st.col - 1] = Blank]

\* f = frame count at which the word is transmitted (for the event log)
Step(st, s, f) ==
  CASE s.k = "PAC" -> [st EXCEPT !.row = s.r, !.col = s.c, !.pen = s.i]
    [] s.k = "TO"  -> [st EXCEPT !.col = Min2(st.col + s.n, 31)]
    [] s.k = "CH"  -> LET a == Put(st, [ch |-> s.a, it |-> st.pen]) IN
                      IF s.b = 0 THEN a ELSE Put(a, [ch |-> s.b, it |-> a.pen])
    [] s.k = "SP"  -> Put(st, [ch |-> s.x, it |-> st.pen])
    [] s.k = "EXT" -> LET u == IF st.col > 0 THEN [st EXCEPT !.col = st.col - 1] ELSE st IN
                      Put(u, [ch |-> s.x, it |-> u.pen])
    [] s.k = "BS"  -> Erase(st)
    [] s.k = "MID" -> [Put(st, MidCell) EXCEPT !.pen = s.i]
    [] s.k = "RCL" -> [st EXCEPT !.mode = "pop"]
    [] s.k = "ENM" -> [st EXCEPT !.ndm = EmptyMem]
    [] s.k = "EDM" -> [st EXCEPT !.dm = EmptyMem, !.ev = Append(st.ev, [e |-> "EDM", f |-> f])]
    [] s.k = "EOC" -> [st EXCEPT !.dm = st.ndm, !.ndm = st.dm,
                                 !.ev = Append(st.ev, [e |-> "EOC", f |-> f, scr |-> st.ndm])]
    [] OTHER -> st

\* frames of a timecode (30 per timecode second)
TcFrames(tc) == ((tc[1] * 3600 + tc[2] * 60 + tc[3]) * 30) + tc[4]

RECURSIVE RunSyms(_, _, _)
RunSyms(st, syms, f) ==
  IF syms = <<>> THEN st ELSE RunSyms(Step(st, Head(syms), f), Tail(syms), f + Head(syms).w)
RECURSIVE RunLines(_, _)
RunLines(st, lines) ==
  IF lines = <<>> THEN st
  ELSE RunLines(RunSyms(st, Head(lines).syms, TcFrames(Head(lines).tc)), Tail(lines))
Run(prog) == RunLines(InitSt, prog)

-----------------------------------------------------------------------------
(* What a screen shows: captions = maximal runs of adjacent used rows *)
Visible(cell) == cell.ch > 0 /\ cell.ch # 32
UsedCols(m, r) == {c \in Cols : m[r][c].ch # 0}
RowUsed(m, r) == \E c \in Cols : Visible(m[r][c])
RowsUsed(m) == {r \in Rows : RowUsed(m, r)}
GroupStarts(m) == {r \in RowsUsed(m) : (r - 1) \notin RowsUsed(m)}
MinSet(S) == CHOOSE x \in S : \A y \in S : x <= y
MaxSet(S) == CHOOSE x \in S : \A y \in S : x >= y
RECURSIVE GroupEnd(_, _)
GroupEnd(m, r) == IF (r + 1) \in RowsUsed(m) THEN GroupEnd(m, r + 1) ELSE r
RowCells(m, r) == LET lo == MinSet(UsedCols(m, r)) hi == MaxSet(UsedCols(m, r)) IN
                  [k \in 1..(hi - lo + 1) |-> m[r][lo + k - 1]]
RECURSIVE SortedSeq(_)
SortedSeq(S) == IF S = {} THEN <<>> ELSE <<MinSet(S)>> \o SortedSeq(S \ {MinSet(S)})
ScreenCaps(m) ==
  LET gs == SortedSeq(GroupStarts(m)) IN
  [k \in 1..Len(gs) |->
     LET r0 == gs[k] r1 == GroupEnd(m, gs[k]) IN
     [row |-> r0, col |-> MinSet(UsedCols(m, r0)),
      lines |-> [j \in 1..(r1 - r0 + 1) |-> RowCells(m, r0 + j - 1)]]]

-----------------------------------------------------------------------------
(* Text relation: a mid-row cell is an optional space *)
\* reference row -> <<ch, it, gap>> per visible character; gap before it: 0 none,
\* 1 only mid-row cells (space optional), 2 a real space or an unwritten cell
RECURSIVE RefToks(_, _)
RefToks(cells, gap) ==
  IF cells = <<>> THEN <<>>
  ELSE LET x == Head(cells) IN
       IF x.ch = -1 THEN RefToks(Tail(cells), Max2(gap, 1))
       ELSE IF x.ch = 0 \/ x.ch = 32 THEN RefToks(Tail(cells), 2)
       ELSE <<[c |-> x.ch, it |-> x.it, gap |-> gap]>> \o RefToks(Tail(cells), 0)
\* observed line (<<ch, it>> per character) -> <<ch, it, sp>>
IsSp(c) == c \in {32, 160}
RECURSIVE ObsToks(_, _)
ObsToks(chars, sp) ==
  IF chars = <<>> THEN <<>>
  ELSE LET x == Head(chars) IN
       IF IsSp(x[1]) THEN ObsToks(Tail(chars), TRUE)
       ELSE <<[c |-> x[1], it |-> x[2], sp |-> sp]>> \o ObsToks(Tail(chars), FALSE)
LineMatches(obs, ref) ==
  LET o == ObsToks(obs, FALSE) r == RefToks(ref, 0) IN
  /\ Len(o) = Len(r)
  /\ \A k \in 1..Len(r) : /\ o[k].c = r[k].c
                          /\ (k = 1 \/ ((o[k].sp => r[k].gap >= 1) /\ (r[k].gap = 2 => o[k].sp)))
\* blanks in front of the first visible character: the cells written as spaces are there, a mid-row
\* cell may or may not show as one (a row whose text starts at its third cell reads with two blanks
\* in front: dropping them moves the text on the screen)
RECURSIVE LeadObs(_)
LeadObs(chars) == IF chars # <<>> /\ IsSp(Head(chars)[1]) THEN 1 + LeadObs(Tail(chars)) ELSE 0
RECURSIVE LeadRef(_, _)
LeadRef(cells, which) ==
  IF cells = <<>> \/ ~(Head(cells).ch \in {-1, 0, 32}) THEN 0
  ELSE (IF (Head(cells).ch = -1) = (which = "mid") THEN 1 ELSE 0) + LeadRef(Tail(cells), which)
LeadOk(obs, ref) == /\ LeadObs(obs) >= LeadRef(ref, "real")
                    /\ LeadObs(obs) <= LeadRef(ref, "real") + LeadRef(ref, "mid")
ItalicsMatch(obs, ref) ==
  LET o == ObsToks(obs, FALSE) r == RefToks(ref, 0) IN
  \A k \in 1..Len(r) : o[k].it = r[k].it

-----------------------------------------------------------------------------
(* Observed caption: [start, end, x32, y15, nodes] with nodes a sequence of            *)
(*   [t |-> "T", s |-> code points] [t |-> "BR"] [t |-> "S", on |-> BOOLEAN]            *)
(* x32 = 32 * x-percentage as an integer when it is one (else -1), y15 likewise          *)
RECURSIVE NodeLines(_, _, _, _)
NodeLines(nodes, it, cur, acc) ==
  IF nodes = <<>> THEN Append(acc, cur)
  ELSE LET n == Head(nodes) IN
    IF n.t = "T" THEN NodeLines(Tail(nodes), it, cur \o [k \in 1..Len(n.s) |-> <<n.s[k], it>>], acc)
    ELSE IF n.t = "BR" THEN NodeLines(Tail(nodes), it, <<>>, Append(acc, cur))
    ELSE NodeLines(Tail(nodes), n.on, cur, acc)
LinesOf(cap) == NodeLines(cap.nodes, FALSE, <<>>, <<>>)
RECURSIVE StyleBalanced(_, _)
StyleBalanced(nodes, open) ==
  IF nodes = <<>> THEN ~open
  ELSE LET n == Head(nodes) IN
       IF n.t # "S" THEN StyleBalanced(Tail(nodes), open)
       ELSE IF n.on THEN ~open /\ StyleBalanced(Tail(nodes), TRUE)
       ELSE open /\ StyleBalanced(Tail(nodes), FALSE)

\* expected captions of a pop-on program, in order: every EOC that shows a non-empty screen
RECURSIVE ExpectCaps(_)
ExpectCaps(ev) ==
  IF ev = <<>> THEN <<>>
  ELSE IF Head(ev).e = "EOC" THEN ScreenCaps(Head(ev).scr) \o ExpectCaps(Tail(ev))
  ELSE ExpectCaps(Tail(ev))

\* C05: text, rows, italics, position
CapTextOk(o, e) == LET ol == LinesOf(o) IN
  Len(ol) = Len(e.lines) /\ \A k \in 1..Len(ol) : LineMatches(ol[k], e.lines[k]) /\ LeadOk(ol[k], e.lines[k])
CapItalicsOk(o, e) == LET ol == LinesOf(o) IN \A k \in 1..Len(ol) : ItalicsMatch(ol[k], e.lines[k])
\* x = 10 + 80 col / 32, y = 5 + 90 (row - 1) / 15  (both times 32 resp. 15 are integers)
CapPositionOk(o, e) == o.x32 = 320 + 80 * e.col /\ o.y15 = 75 + 90 * (e.row - 1)

RECURSIVE FirstBadCap(_, _, _)
FirstBadCap(obs, exp, k) ==
  IF k > Len(exp) THEN "ok"
  ELSE IF ~CapTextOk(obs[k], exp[k]) THEN "TextDiffersFromDecoderScreen"
  ELSE IF ~StyleBalanced(obs[k].nodes, FALSE) THEN "ItalicNodesUnbalanced"
  ELSE IF ~CapItalicsOk(obs[k], exp[k]) THEN "ItalicsCoverOtherCharacters"
  ELSE IF ~CapPositionOk(obs[k], exp[k]) THEN "CaptionPositionWrong"
  ELSE FirstBadCap(obs, exp, k + 1)

\* rec.other (optional): what the reader returns for the same program with its control codes sent
\* the other way (single <-> doubled); redundancy must not change what is read
NoTimes(caps) == [k \in 1..Len(caps) |-> [x32 |-> caps[k].x32, y15 |-> caps[k].y15, nodes |-> caps[k].nodes]]
SameEitherWay(rec) ==
  \/ "other" \notin DOMAIN rec
  \/ (~rec.other.ok /\ rec.other.err = "CaptionReadTimingError")   \* durations do depend on the word count
  \/ (rec.other.ok /\ NoTimes(rec.other.caps) = NoTimes(rec.obs.caps))
VerdictPopOn(rec) ==
  LET exp == ExpectCaps(Run(rec.prog).ev) IN
  IF ~rec.obs.ok THEN "WellFormedStreamRefused"
  ELSE IF Len(rec.obs.caps) # Len(exp) THEN "CaptionCountDiffersFromDecoder"
  ELSE LET v == FirstBadCap(rec.obs.caps, exp, 1) IN
       IF v # "ok" THEN v
       ELSE IF ~SameEitherWay(rec) THEN "SingleAndDoubledCodesReadDifferently" ELSE "ok"

\* known deviation KF-C05-1: the position tracker survives End-Of-Caption.  A caption whose
\* first row is the previous caption's last row (+0 / +1) may keep the previous caption's
\* position and may begin with an empty line; everything else as required.
RECURSIVE DropLeadingEmpty(_)
DropLeadingEmpty(ls) == IF Len(ls) > 1 /\ ls[1] = <<>> THEN DropLeadingEmpty(Tail(ls)) ELSE ls
CapTextOkDev(o, e) == LET ol == DropLeadingEmpty(LinesOf(o)) IN
  Len(ol) = Len(e.lines) /\ \A k \in 1..Len(ol) : LineMatches(ol[k], e.lines[k])
RECURSIVE FirstBadCapDev(_, _, _)
FirstBadCapDev(obs, exp, k) ==
  IF k > Len(exp) THEN "ok"
  ELSE LET near == k > 1 /\ (exp[k].row - (exp[k - 1].row + Len(exp[k - 1].lines) - 1)) \in {0, 1}
           posok == CapPositionOk(obs[k], exp[k])
                    \/ (near /\ obs[k].x32 = obs[k - 1].x32 /\ obs[k].y15 = obs[k - 1].y15) IN
       IF ~(CapTextOk(obs[k], exp[k]) \/ (near /\ CapTextOkDev(obs[k], exp[k]))) THEN "TextDiffersBeyondKnownDeviation"
       ELSE IF ~StyleBalanced(obs[k].nodes, FALSE) THEN "ItalicNodesUnbalanced"
       ELSE IF ~posok THEN "PositionWrongBeyondKnownDeviation"
       ELSE FirstBadCapDev(obs, exp, k + 1)
VerdictPopOnDev(rec) ==
  LET exp == ExpectCaps(Run(rec.prog).ev) IN
  IF ~rec.obs.ok THEN "WellFormedStreamRefused"
  ELSE IF Len(rec.obs.caps) # Len(exp) THEN "CaptionCountDiffersFromDecoder"
  ELSE FirstBadCapDev(rec.obs.caps, exp, 1)

-----------------------------------------------------------------------------
(* C06 timing.  Unit: one third of a microsecond.                                  *)
(* frame f at non-drop timecode lasts f * 1001/30 ms = f * 100100 units, drop-frame *)
(* f * 100000 units; rec.offset milliseconds are subtracted, floor at zero               *)
Instant(f, drop, off) ==
  LET t == MulSmall(FromSmall(f), IF drop THEN 100000 ELSE 100100)
      o == MulSmall(FromSmall(off), 3000) IN      \* off in milliseconds (offsets need not be whole seconds)
  IF Leq(o, t) THEN Sub(t, o) ELSE <<>>
FiveFrames(drop) == FromSmall(5 * (IF drop THEN 100000 ELSE 100100))
FourSeconds3 == FromSmall(12000000)
FiftyMs3 == FromSmall(150000)

\* screens: sequence of [start frame, end frame or -1, n captions] from the event log
RECURSIVE Screens(_, _)
Screens(ev, open) ==
  \* open = <<>> or <<[f, n]>> : a displayed, not yet erased screen
  IF ev = <<>> THEN (IF open = <<>> THEN <<>> ELSE <<[s |-> open[1].f, e |-> -1, n |-> open[1].n]>>)
  ELSE LET x == Head(ev)
           closed == IF open = <<>> THEN <<>> ELSE <<[s |-> open[1].f, e |-> x.f, n |-> open[1].n]>> IN
       IF x.e = "EDM" THEN closed \o Screens(Tail(ev), <<>>)
       ELSE LET n == Len(ScreenCaps(x.scr)) IN
            IF n = 0 THEN (IF open = <<>> THEN Screens(Tail(ev), <<>>) ELSE closed \o Screens(Tail(ev), <<>>))
            ELSE closed \o Screens(Tail(ev), <<[f |-> x.f, n |-> n]>>)

\* expected (start, end) per screen in units; five-frame joining; four-second default
\* a gap of exactly five frames may or may not be closed: both ends are accepted
ScreenTimes(scr, k, drop, off) ==
  LET s == Instant(scr[k].s, drop, off)
      rawEnd == IF scr[k].e = -1 THEN Add(s, FourSeconds3) ELSE Instant(scr[k].e, drop, off)
      nxt == IF k < Len(scr) THEN Instant(scr[k + 1].s, drop, off) ELSE <<>>
      gap == IF k < Len(scr) /\ scr[k].e # -1 THEN Sub(nxt, rawEnd) ELSE <<>>
      hasNext == k < Len(scr) /\ scr[k].e # -1
  IN [s |-> s,
      ends |-> IF hasNext /\ Lt(gap, FiveFrames(drop)) THEN {nxt}
               ELSE IF hasNext /\ gap = FiveFrames(drop) THEN {nxt, rawEnd}
               ELSE {rawEnd}]

\* observed times arrive in nanoseconds (integers); unit * 1000 = 3 ns
CloseTo(obsNs, units) == LET a == MulSmall(obsNs, 3) b == MulSmall(units, 1000)
                             d == IF Leq(a, b) THEN Sub(b, a) ELSE Sub(a, b) IN Leq(d, <<6>>)

RECURSIVE ExpandScreens(_, _, _, _)
ExpandScreens(scr, k, drop, off) ==
  IF k > Len(scr) THEN <<>>
  ELSE LET t == ScreenTimes(scr, k, drop, off) IN
       [j \in 1..scr[k].n |-> t] \o ExpandScreens(scr, k + 1, drop, off)

TooShort(t) == \E e \in t.ends : Lt(t.s, e) /\ Lt(Sub(e, t.s), FiftyMs3)
AllTooShortOrNot(t) == \A e \in t.ends : Lt(t.s, e) /\ Lt(Sub(e, t.s), FiftyMs3)

VerdictTiming(rec) ==
  LET scr == Screens(Run(rec.prog).ev, <<>>)
      exp == ExpandScreens(scr, 1, rec.drop, rec.offset)
      mustRaise == \E k \in 1..Len(exp) : AllTooShortOrNot(exp[k])
      mayRaise == \E k \in 1..Len(exp) : TooShort(exp[k]) IN
  IF rec.obs.err = "CaptionReadTimingError" THEN (IF mayRaise THEN "ok" ELSE "TimingErrorWithoutShortCaption")
  ELSE IF ~rec.obs.ok THEN "WellFormedStreamRefused"
  ELSE IF mustRaise THEN "ShortCaptionReturnedInsteadOfTimingError"
  ELSE IF Len(rec.obs.caps) # Len(exp) THEN "CaptionCountDiffersFromDecoder"
  ELSE IF \E k \in 1..Len(exp) : ~CloseTo(rec.obs.caps[k].start, exp[k].s) THEN "StartNotAtEndOfCaptionFrame"
  ELSE IF \E k \in 1..Len(exp) : ~(\E e \in exp[k].ends : CloseTo(rec.obs.caps[k].end, e)) THEN "EndNotAtNextEraseOrDisplay"
  ELSE IF \E k \in 1..(Len(exp) - 1) : ~Leq(rec.obs.caps[k].start, rec.obs.caps[k + 1].start) THEN "NotInTransmissionOrder"
  ELSE IF \E k \in 1..Len(exp) : ~Leq(rec.obs.caps[k].start, rec.obs.caps[k].end) THEN "EndBeforeStart"
  ELSE "ok"
=============================================================================
