SPECIFICATION Spec
CONSTANTS
  MaxLen = 5
  Emit = TRUE
INVARIANT DfaMeetsGrammar
INVARIANT DenotedWellFormed
INVARIANT EmitCase
CHECK_DEADLOCK FALSE
