SPECIFICATION Spec
CONSTANTS
  MaxLen = 6
  SrtGuard = TRUE
  Emit = TRUE
INVARIANT ModelMeetsRequirement
INVARIANT EmitCase
CHECK_DEADLOCK FALSE
