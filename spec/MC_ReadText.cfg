SPECIFICATION Spec
CONSTANTS
  MaxItems = 2
  Emit = TRUE
INVARIANT DisplaySane
INVARIANT LinesSane
INVARIANT EmitCase
CHECK_DEADLOCK FALSE
