------------------------------- MODULE Gen_Scc -------------------------------
(* Structured well-formed pop-on caption loads: rows from a small set, PAC      *)
(* columns with and without tab offset, italic preambles, items from seven      *)
(* kinds.  Each load is run through the reference decoder (sanity: one caption  *)
(* per group of adjacent rows, every row's text as sent) and emitted for replay *)
(* in both doubling modes.                                                      *)
EXTENDS Scc608, Json
CONSTANTS Emit

RowSets == { <<13>>, <<14>>, <<15>>, <<2>>, <<13, 14>>, <<14, 15>>, <<2, 14>>, <<13, 15>>, <<2, 13>>, <<2, 15>> }
Starts == { <<0, 0, FALSE>>, <<4, 0, FALSE>>, <<4, 1, FALSE>>, <<0, 0, TRUE>> }      \* PAC column, tab offset, italic PAC
Items == << <<[k |-> "CH", a |-> 65, b |-> 98]>>,
            <<[k |-> "CH", a |-> 120, b |-> 0]>>,
            <<[k |-> "SP", x |-> 9834]>>,
            <<[k |-> "CH", a |-> 101, b |-> 0], [k |-> "EXT", x |-> 201]>>,
            <<[k |-> "CH", a |-> 67, b |-> 100], [k |-> "BS"]>>,
            <<[k |-> "MID", i |-> TRUE], [k |-> "CH", a |-> 121, b |-> 0]>>,
            <<[k |-> "MID", i |-> FALSE], [k |-> "CH", a |-> 122, b |-> 0]>> >>
NI == Len(Items)
ItemSeqs(single) == IF single THEN {<<a>> : a \in 1..NI} \cup {<<a, b>> : a \in 1..NI, b \in 1..NI}
                    ELSE {<<a>> : a \in 1..NI}

RECURSIVE Flat(_)
Flat(is) == IF is = <<>> THEN <<>> ELSE Items[Head(is)] \o Flat(Tail(is))
RowLoad(r, s, is) ==
  <<[k |-> "PAC", r |-> r, c |-> s[1], i |-> s[3]]>>
  \o (IF s[2] > 0 THEN <<[k |-> "TO", n |-> s[2]]>> ELSE <<>>)
  \* every row starts with a visible pair so that it never ends up empty
  \o <<[k |-> "CH", a |-> 72, b |-> 105]>> \o Flat(is)

VARIABLES rows, load
Init == rows \in RowSets /\ load = <<>>
Next == /\ load = <<>>
        /\ \E s1 \in Starts, i1 \in ItemSeqs(Len(rows) = 1) :
             IF Len(rows) = 1 THEN load' = RowLoad(rows[1], s1, i1)
             ELSE \E s2 \in Starts, i2 \in ItemSeqs(FALSE) : load' = RowLoad(rows[1], s1, i1) \o RowLoad(rows[2], s2, i2)
        /\ rows' = rows
Spec == Init /\ [][Next]_<<rows, load>>

WithW(syms) == [k \in 1..Len(syms) |-> syms[k] @@ [w |-> 1]]
Prog == << [tc |-> <<0, 0, 1, 0>>, drop |-> FALSE,
            syms |-> WithW(<<[k |-> "RCL"]>> \o load \o <<[k |-> "EOC"]>>)] >>
Caps == ExpectCaps(Run(Prog).ev)
Adjacent == Len(rows) = 2 /\ rows[2] = rows[1] + 1
ReferenceSane == load # <<>> =>
  /\ Len(Caps) = (IF Len(rows) = 2 /\ ~Adjacent THEN 2 ELSE 1)
  /\ Caps[1].row = rows[1]
  /\ \A k \in 1..Len(Caps) : \A j \in 1..Len(Caps[k].lines) : Caps[k].lines[j][1].ch = 72
EmitCase == IF Emit /\ load # <<>> THEN PrintT("CASE " \o ToJson([syms |-> load])) ELSE TRUE
=============================================================================
