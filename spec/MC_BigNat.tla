----------------------------- MODULE MC_BigNat -----------------------------
(* Sanity of the arithmetic oracle itself against TLC's native integers.    *)
EXTENDS BigNat, TLC
Vals == {0, 1, 9, 10, 9999, 10000, 10001, 12345, 99999, 100000, 4294, 20000000, 99999999, 100000000, 123456789, 214748364}
Smalls == {1, 2, 3, 10, 30, 60, 1000, 1001, 3600, 9999, 10000, 23976, 29970, 59940, 200000}
VARIABLES a, b, k
Init == a \in Vals /\ b \in Vals /\ k \in Smalls
Next == UNCHANGED <<a, b, k>>
Spec == Init /\ [][Next]_<<a, b, k>>
A == FromSmall(a)
B == FromSmall(b)
Inv0 ==
     IsBig(A) /\ ToSmall(A) = a
Inv1 ==
     (a + b < 2147483647 => ToSmall(Add(A, B)) = a + b)
Inv2 ==
     Cmp(A, B) = (IF a < b THEN -1 ELSE IF a > b THEN 1 ELSE 0)
Inv3 ==
     (a >= b => ToSmall(Sub(A, B)) = a - b)
Inv4 ==
     LET qr == DivModSmall(A, k) IN ToSmall(qr[1]) = a \div k /\ qr[2] = a % k /\ IsBig(qr[1])
Inv5 ==
     (a <= 10000 => ToSmall(MulSmall(A, k)) = a * k)
Inv6 ==
     (a <= 40000 /\ b <= 40000 => ToSmall(Mul(A, B)) = a * b)
Inv7 ==
     Mul(A, B) = Mul(B, A)
Inv8 ==
     DivModSmall(MulSmall(A, k), k) = <<A, 0>>
Inv9 ==
     DivModSmall(Add(MulSmall(A, k), FromSmall(k - 1)), k) = <<A, k - 1>>
Inv10 ==
     Sub(Add(A, B), B) = A
Inv11 ==
     Mul(Add(A, B), FromSmall(k)) = Add(MulSmall(A, k), MulSmall(B, k))
Inv12 ==
     IsBig(Mul(Mul(A, B), A))
Inv13 ==
     DivModSmall(Mul(Mul(A, B), FromSmall(k)), k) = <<Mul(A, B), 0>>
Inv14 ==
     LET x == MkInt(1, A) y == MkInt(-1, B) IN
       /\ IAdd(x, y) = IAdd(y, x)
       /\ ISub(IAdd(x, y), y) = x
       /\ (a >= b => IAdd(x, y) = MkInt(1, FromSmall(a - b)))
       /\ (a < b => IAdd(x, y) = MkInt(-1, FromSmall(b - a)))
       /\ ICmp(x, y) = (IF a = 0 /\ b = 0 THEN 0 ELSE 1)
Inv15 ==
     FromDigits(<<1, 2, 3, 4, 5, 6, 7, 8, 9>>) = FromSmall(123456789)
Inv16 ==
     MulPow10(A, 6) = Mul(A, FromSmall(1000000))

Inv == Inv0 /\ Inv1 /\ Inv2 /\ Inv3 /\ Inv4 /\ Inv5 /\ Inv6 /\ Inv7 /\ Inv8 /\ Inv9 /\ Inv10 /\ Inv11 /\ Inv12 /\ Inv13 /\ Inv14 /\ Inv15 /\ Inv16
====
