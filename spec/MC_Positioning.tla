---------------------------- MODULE MC_Positioning ----------------------------
(* Design model of the DFXP round trip at the level of layout names: the writer's *)
(* region lookup (module DfxpDoc) composed with the reader's "own region, else the *)
(* nearest ancestor's" resolution gives every character its effective layout.      *)
(* PlainNodeLayoutLost = TRUE models the code as found (a plain TEXT node's own     *)
(* layout is never written); with it the full requirement is refuted, and the       *)
(* requirement restricted to styled spans holds.                                    *)
EXTENDS DfxpDoc, Json
CONSTANTS PlainNodeLayoutLost, RestrictToStyled, Emit
Lays == {"none", "A", "B", "D", "W"}
VARIABLE c          \* [set, lang, cap1, cap2, node, styled]
Init == c \in [set : Lays, lang : Lays, cap1 : Lays, cap2 : {"none"}, node : Lays, styled : BOOLEAN]
Next == UNCHANGED c
Spec == Init /\ [][Next]_c

\* geometric content a layout name stands for (D and W carry nothing a region could hold
\* beyond the defaults)
Geo(l) == IF l \in {"A", "B"} THEN l ELSE "default"
EffName(n, cp, lg) == IF n # "none" THEN n ELSE IF cp # "none" THEN cp ELSE IF lg # "none" THEN lg ELSE "none"
\* what the reader resolves for the character inside the node
RegionOfNodeChar ==
  IF c.node # "none" /\ (c.styled \/ ~PlainNodeLayoutLost)
     THEN Lookup(c, <<c.node, c.cap1, c.lang, c.set>>)
     ELSE Lookup(c, <<c.cap1, c.lang, c.set>>)
LayoutOfRegion(id) == IF id = "bottom" THEN "default" ELSE Created(c)[(CHOOSE k \in 1..Len(Created(c)) : id = "r" \o ToString(k - 1))]
\* a layout that exists only at set level gets no region: outside the property
InDomain == c.set = "none" \/ EffName(c.node, c.cap1, c.lang) # "none"
RoundTripKeepsEffectiveLayout ==
  (InDomain /\ (c.styled \/ ~RestrictToStyled \/ c.node = "none")) =>
     LayoutOfRegion(RegionOfNodeChar) = Geo(EffName(c.node, c.cap1, c.lang))
EmitCase == IF Emit THEN PrintT("CASE " \o ToJson(c)) ELSE TRUE
=============================================================================
