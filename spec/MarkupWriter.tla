---------------------------- MODULE MarkupWriter ----------------------------
(***************************************************************************)
(* Style spans (C11) and hand-assembled markup (C07 i).                     *)
(*                                                                          *)
(* A caption body is a flat stream of nodes                                 *)
(*    [t |-> "T", s |-> code points]   text                                 *)
(*    [t |-> "BR"]                     line break                           *)
(*    [t |-> "S", on |-> BOOLEAN, st |-> subset of {"i","b","u"}]  style     *)
(* A written body is a stream of tokens                                     *)
(*    [k |-> "open", st |-> styles]  [k |-> "close"]  [k |-> "text", s]  [k |-> "br"] *)
(***************************************************************************)
EXTENDS Naturals, Sequences, FiniteSets, TLC

AllStyles == {"i", "b", "u"}
IsSpace(c) == c \in {32, 9, 10, 13, 160}

-----------------------------------------------------------------------------
(* Requirement side *)

\* per character of the node stream: <<code point, active styles>>; a style node that
\* switches on adds its styles, one that switches off removes them (flat spans)
RECURSIVE NodeFlags(_, _)
NodeFlags(nodes, act) ==
  IF nodes = <<>> THEN <<>>
  ELSE LET n == Head(nodes) IN
    IF n.t = "T" THEN [k \in 1..Len(n.s) |-> <<n.s[k], act>>] \o NodeFlags(Tail(nodes), act)
    ELSE IF n.t = "S" THEN NodeFlags(Tail(nodes), IF n.on THEN act \cup n.st ELSE act \ n.st)
    ELSE NodeFlags(Tail(nodes), act)

\* per character of the token stream: styles on the stack of open elements
RECURSIVE TokFlags(_, _)
TokFlags(toks, stack) ==
  IF toks = <<>> THEN <<>>
  ELSE LET x == Head(toks)
           act == UNION {stack[k] : k \in 1..Len(stack)} IN
    IF x.k = "text" THEN [k \in 1..Len(x.s) |-> <<x.s[k], act>>] \o TokFlags(Tail(toks), stack)
    ELSE IF x.k = "open" THEN TokFlags(Tail(toks), Append(stack, x.st))
    ELSE IF x.k = "close" THEN TokFlags(Tail(toks), IF stack = <<>> THEN stack ELSE SubSeq(stack, 1, Len(stack) - 1))
    ELSE TokFlags(Tail(toks), stack)

\* compare on visible characters only, and only the styles the target carries
Vis(fl, carried) == LET v == SelectSeq(fl, LAMBDA p : ~IsSpace(p[1])) IN
                    [k \in 1..Len(v) |-> <<v[k][1], v[k][2] \cap carried>>]

\* tags balanced and properly nested: a close always matches the innermost open element
\* (tokens carry the element name n), nothing is left open
RECURSIVE Nested(_, _)
Nested(toks, stack) ==
  IF toks = <<>> THEN stack = <<>>
  ELSE LET x == Head(toks) IN
       IF x.k = "open" THEN Nested(Tail(toks), Append(stack, x.n))
       ELSE IF x.k = "close" THEN stack # <<>> /\ stack[Len(stack)] = x.n
                                   /\ Nested(Tail(toks), SubSeq(stack, 1, Len(stack) - 1))
       ELSE Nested(Tail(toks), stack)
BalancedTokens(toks) == Nested(toks, <<>>)

\* style nodes of a caption balanced: every switch-off follows a switch-on of the same
\* styles and nothing stays on at the end
RECURSIVE NodesBalanced(_, _)
NodesBalanced(nodes, open) ==
  IF nodes = <<>> THEN open = <<>>
  ELSE LET n == Head(nodes) IN
    IF n.t # "S" THEN NodesBalanced(Tail(nodes), open)
    ELSE IF n.on THEN NodesBalanced(Tail(nodes), Append(open, n.st))
    ELSE open # <<>> /\ NodesBalanced(Tail(nodes), SubSeq(open, 1, Len(open) - 1))

\* one hop: rec.nodes written by format rec.fmt gives tokens rec.toks (rec.wf: the output
\* could be tokenised), read back by that format's reader gives rec.back (if rec.reads)
HopVerdict(nodes, hop, carried) ==
  IF ~hop.wf THEN "OutputMarkupUnbalanced"
  ELSE IF ~BalancedTokens(hop.toks) THEN "OutputMarkupUnbalanced"
  ELSE IF Vis(TokFlags(hop.toks, <<>>), carried) # Vis(NodeFlags(nodes, {}), carried) THEN "WrittenSpansCoverOtherCharacters"
  ELSE IF hop.reads /\ ~NodesBalanced(hop.back, <<>>) THEN "ReaderReturnedUnbalancedStyleNodes"
  ELSE IF hop.reads /\ Vis(NodeFlags(hop.back, {}), carried) # Vis(NodeFlags(nodes, {}), carried) THEN "SpansChangedByRoundTrip"
  ELSE "ok"

Carried(fmt) == IF fmt = "DFXP" THEN {"i"} ELSE AllStyles

\* rec.nodes, rec.hops = << [fmt, wf, toks, reads, back], ... >>; the second hop starts from
\* what the first one read back; styles are compared as far as every format so far carries them
VerdictSpans(rec) ==
  LET h1 == rec.hops[1]
      v1 == HopVerdict(rec.nodes, h1, Carried(h1.fmt)) IN
  IF v1 # "ok" THEN v1 \o "@" \o h1.fmt
  ELSE IF Len(rec.hops) = 1 THEN "ok"
  ELSE LET h2 == rec.hops[2]
           v2 == HopVerdict(rec.nodes, h2, Carried(h1.fmt) \cap Carried(h2.fmt)) IN
       IF v2 # "ok" THEN v2 \o "@" \o h1.fmt \o ">" \o h2.fmt ELSE "ok"

\* any caption returned by any reader: rec.nodes
VerdictBalanced(rec) == IF NodesBalanced(rec.nodes, <<>>) THEN "ok" ELSE "ReaderReturnedUnbalancedStyleNodes"

-----------------------------------------------------------------------------
(* Design model: the writers' span reconstruction with a single open_span flag *)
\* DFXP / legacy DFXP: only italics becomes an attribute; a start node with nothing to
\* write opens nothing; an end node closes whatever is open
DfxpAttrs(st) == st \cap {"i"}
RECURSIVE DfxpEmit(_, _)
DfxpEmit(nodes, open) ==
  IF nodes = <<>> THEN <<>>
  ELSE LET n == Head(nodes) IN
    IF n.t = "T" THEN <<[k |-> "text", s |-> n.s]>> \o DfxpEmit(Tail(nodes), open)
    ELSE IF n.t = "BR" THEN <<[k |-> "br"]>> \o DfxpEmit(Tail(nodes), open)
    ELSE IF n.on THEN
         IF DfxpAttrs(n.st) = {} THEN DfxpEmit(Tail(nodes), open)
         ELSE (IF open THEN <<[k |-> "close", n |-> "span"]>> ELSE <<>>) \o <<[k |-> "open", st |-> DfxpAttrs(n.st), n |-> "span"]>>
              \o DfxpEmit(Tail(nodes), TRUE)
    ELSE (IF open THEN <<[k |-> "close", n |-> "span"]>> ELSE <<>>) \o DfxpEmit(Tail(nodes), FALSE)

\* SAMI: every style becomes a css rule on a span
RECURSIVE SamiEmit(_, _)
SamiEmit(nodes, open) ==
  IF nodes = <<>> THEN <<>>
  ELSE LET n == Head(nodes) IN
    IF n.t = "T" THEN <<[k |-> "text", s |-> n.s]>> \o SamiEmit(Tail(nodes), open)
    ELSE IF n.t = "BR" THEN <<[k |-> "br"]>> \o SamiEmit(Tail(nodes), open)
    ELSE IF n.on THEN
         IF n.st = {} THEN (IF open THEN <<[k |-> "close", n |-> "span"]>> ELSE <<>>) \o SamiEmit(Tail(nodes), FALSE)
         ELSE (IF open THEN <<[k |-> "close", n |-> "span"]>> ELSE <<>>) \o <<[k |-> "open", st |-> n.st, n |-> "span"]>> \o SamiEmit(Tail(nodes), TRUE)
    ELSE (IF open THEN <<[k |-> "close", n |-> "span"]>> ELSE <<>>) \o SamiEmit(Tail(nodes), FALSE)

\* WebVTT: <i><u><b> in that order on start, reversed on end, no flag at all
Order == <<"i", "u", "b">>
OpenSeq(st) == LET x == SelectSeq(Order, LAMBDA z : z \in st) IN [k \in 1..Len(x) |-> [k |-> "open", st |-> {x[k]}, n |-> x[k]]]
\* closing tags come in the reverse order
CloseSeq(st) == LET x == SelectSeq(Order, LAMBDA z : z \in st) IN [k \in 1..Len(x) |-> [k |-> "close", n |-> x[Len(x) + 1 - k]]]
RECURSIVE VttEmit(_)
VttEmit(nodes) ==
  IF nodes = <<>> THEN <<>>
  ELSE LET n == Head(nodes) IN
    IF n.t = "T" THEN <<[k |-> "text", s |-> n.s]>> \o VttEmit(Tail(nodes))
    ELSE IF n.t = "BR" THEN <<[k |-> "br"]>> \o VttEmit(Tail(nodes))
    ELSE IF n.on THEN OpenSeq(n.st) \o VttEmit(Tail(nodes))
    ELSE CloseSeq(n.st) \o VttEmit(Tail(nodes))

ModelEmit(fmt, nodes) == IF fmt = "DFXP" THEN DfxpEmit(nodes, FALSE)
                         ELSE IF fmt = "SAMI" THEN SamiEmit(nodes, FALSE) ELSE VttEmit(nodes)
=============================================================================
