SPECIFICATION Spec
CONSTANTS
  NLangs = 3
  MaxCues = 2
  GridMax = 4
  AllowEmptyPrimary = TRUE
  LoseWhenEmpty = FALSE
  Emit = TRUE
INVARIANT SamiModelMeetsRequirement
INVARIANT EmitCase
CHECK_DEADLOCK FALSE
