SPECIFICATION Spec
CONSTANTS
  NLangs = 2
  MaxCues = 2
  GridMax = 3
  AllowEmptyPrimary = TRUE
  LoseWhenEmpty = FALSE
  Emit = TRUE
INVARIANT SamiModelMeetsRequirement
INVARIANT EmitCase
CHECK_DEADLOCK FALSE
