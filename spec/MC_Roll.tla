-------------------------------- MODULE MC_Roll --------------------------------
(* Design model of SCCReader's roll-up / paint-on branch: the active buffer, the   *)
(* start time kept in `time`, storing a buffer as a caption on carriage return,    *)
(* on a repeated mode command, on a mode switch and at end of input, and the       *)
(* batch rule that ends a caption when the next one starts.  Events are abstract:  *)
(* RU (roll-up command), RDC (paint-on command), CR, TXT (a row's text), each one  *)
(* frame later than the previous.  FlushOnSwitch = FALSE models a reader that      *)
(* forgets the pending row when the mode changes (negative control).               *)
(* Requirement (C16): every row appears exactly once, in order, no caption is      *)
(* empty, start < end, every caption ends when the next begins.                    *)
EXTENDS Naturals, Sequences, FiniteSets, TLC
CONSTANTS MaxEvents, FlushOnSwitch

VARIABLES mode, buf, time, caps, now, sent, done, last
vars == <<mode, buf, time, caps, now, sent, done, last>>
Init == mode = "none" /\ buf = <<>> /\ time = 0 /\ caps = <<>> /\ now = 1 /\ sent = <<>> /\ done = FALSE /\ last = "none"

\* TimingCorrectingCaptionList: the previous caption ends when the new one starts
Store(cs, rows, s, e) ==
  IF rows = <<>> THEN cs
  ELSE LET n == Len(cs)
           \* end not yet known, or the new caption starts within five frames of it
           prev == IF n > 0 /\ (cs[n].e = 0 \/ s - cs[n].e <= 5) THEN [cs EXCEPT ![n].e = s] ELSE cs
       IN Append(prev, [rows |-> rows, s |-> s, e |-> e])
Tick == now' = now + 1

Txt == /\ ~done /\ mode # "none" /\ Len(sent) < 4
       /\ buf' = Append(buf, Len(sent) + 1) /\ sent' = Append(sent, Len(sent) + 1)
       /\ Tick /\ last' = "TXT" /\ UNCHANGED <<mode, time, caps, done>>
\* roll-up command: (re)enter roll mode; a pending buffer becomes a caption
\* well-formed streams repeat the mode command only right after a carriage return
Ru == /\ ~done /\ (mode # "roll" \/ last = "CR")
      /\ last' = "RU"
      /\ caps' = IF mode = "roll" \/ FlushOnSwitch THEN Store(caps, buf, time, 0) ELSE caps
      /\ buf' = <<>> /\ mode' = "roll" /\ time' = now /\ Tick /\ UNCHANGED <<sent, done>>
Rdc == /\ ~done /\ mode # "paint"
       /\ last' = "RDC"
       /\ caps' = IF mode = "paint" \/ FlushOnSwitch THEN Store(caps, buf, time, 0) ELSE caps
       /\ buf' = <<>> /\ mode' = "paint" /\ time' = now /\ Tick /\ UNCHANGED <<sent, done>>
\* carriage return in roll mode: store the row, it ends now (correct_last_timing force)
Cr == /\ ~done /\ mode = "roll"
      /\ caps' = IF buf = <<>> THEN caps ELSE Store(caps, buf, time, now)
      /\ time' = IF buf = <<>> THEN time ELSE now
      /\ buf' = <<>> /\ Tick /\ last' = "CR" /\ UNCHANGED <<mode, sent, done>>
\* end of input: implicit buffers are flushed; a caption never ended lasts four seconds
End == /\ ~done /\ done' = TRUE
       /\ LET c1 == IF buf = <<>> THEN caps
                    ELSE IF mode = "roll" THEN Store(caps, buf, time, now) ELSE Store(caps, buf, time, 0)
              n == Len(c1)
          IN caps' = IF n > 0 /\ c1[n].e = 0 THEN [c1 EXCEPT ![n].e = c1[n].s + 120] ELSE c1
       /\ buf' = <<>> /\ UNCHANGED <<mode, time, now, sent, last>>
Next == /\ now <= MaxEvents
        /\ (Txt \/ Ru \/ Rdc \/ Cr \/ End)
Spec == Init /\ [][Next]_vars

RECURSIVE AllRows(_)
AllRows(cs) == IF cs = <<>> THEN <<>> ELSE Head(cs).rows \o AllRows(Tail(cs))
Conservation == done => AllRows(caps) = sent
NoEmptyCaption == \A k \in 1..Len(caps) : caps[k].rows # <<>>
Continuity == done => /\ \A k \in 1..Len(caps) : caps[k].s < caps[k].e
                      /\ \A k \in 1..(Len(caps) - 1) : caps[k].e = caps[k + 1].s
=============================================================================
