----------------------------- MODULE MC_DfxpDoc -----------------------------
(* Every assignment of {none, A, B, default-equal, webvtt-only} layouts to the *)
(* set, the language, two captions and a styled span: the region table design  *)
(* model produces a document in which every reference resolves and every       *)
(* region is referenced.  Each assignment is emitted for replay.               *)
EXTENDS DfxpDoc, Json
CONSTANTS Emit
Lays == {"none", "A", "B", "D", "W"}
VARIABLE c
Init == c \in [set : Lays, lang : Lays, cap1 : Lays, cap2 : Lays, node : Lays]
Next == UNCHANGED c
Spec == Init /\ [][Next]_c
ModelMeetsRequirement == VerdictDoc(ModelDoc(c)) = "ok"
EmitCase == IF Emit THEN PrintT("CASE " \o ToJson(c)) ELSE TRUE
=============================================================================
