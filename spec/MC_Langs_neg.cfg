SPECIFICATION Spec
CONSTANTS
  NLangs = 2
  MaxCues = 2
  GridMax = 3
  AllowEmptyPrimary = TRUE
  LoseWhenEmpty = TRUE
  Emit = FALSE
INVARIANT SamiModelMeetsRequirement
INVARIANT EmitCase
CHECK_DEADLOCK FALSE
