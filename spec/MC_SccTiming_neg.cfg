SPECIFICATION Spec
CONSTANTS
  MaxCaps = 3
  JoinAtMost = 6
INVARIANT TimingModelMeetsRequirement
CHECK_DEADLOCK FALSE
