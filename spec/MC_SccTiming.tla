---------------------------- MODULE MC_SccTiming ----------------------------
(* Design model of SCCReader's pop-on timing (pop_ons_queue, the batch rule of  *)
(* TimingCorrectingCaptionList with its "< 5 frames + 1 us" comparison, the      *)
(* four-second default) against the timing requirement of Scc608 (Screens /      *)
(* ScreenTimes), over every event sequence of up to MaxCaps captions: End-Of-    *)
(* Caption, then an Erase-Displayed-Memory after 30..32 frames or none, then a    *)
(* gap of 0..8 frames (or a long one) to the next End-Of-Caption.  Drop-frame     *)
(* time, so that one frame is exactly 100000 units.                               *)
(* JoinAtMost = 5 models the code as found (a gap of exactly five frames is       *)
(* closed, as a pinned unit test demands); the requirement accepts either.        *)
EXTENDS Scc608
CONSTANTS MaxCaps, JoinAtMost

OneCell == [EmptyMem EXCEPT ![15][0] = [ch |-> 65, it |-> FALSE]]
VARIABLES ev, f, ncap, open
Init == ev = <<>> /\ f = 30 /\ ncap = 0 /\ open = FALSE
Eoc == /\ ncap < MaxCaps
       /\ \E gap \in {0, 1, 2, 3, 4, 5, 6, 7, 8, 40} :
            /\ ev' = Append(ev, [e |-> "EOC", f |-> f + gap, scr |-> OneCell])
            /\ f' = f + gap
       /\ ncap' = ncap + 1 /\ open' = TRUE
Edm == /\ open
       /\ \E d \in {30, 31, 32} : ev' = Append(ev, [e |-> "EDM", f |-> f + d]) /\ f' = f + d
       /\ open' = FALSE /\ UNCHANGED ncap
\* without an erase the next caption replaces this one directly, at least a second later
Skip == /\ open /\ ncap < MaxCaps /\ open' = FALSE /\ f' = f + 30 /\ UNCHANGED <<ev, ncap>>
Next == Eoc \/ Edm \/ Skip
Spec == Init /\ [][Next]_<<ev, f, ncap, open>>

U(x) == x * 100000
\* TimingCorrectingCaptionList._update_last_batch, in units
Store(caps, s, e) ==
  LET n == Len(caps) IN
  IF n > 0 /\ (caps[n].e = 0 \/ s - caps[n].e <= U(JoinAtMost))
     THEN Append([caps EXCEPT ![n].e = s], [s |-> s, e |-> e])
     ELSE Append(caps, [s |-> s, e |-> e])
RECURSIVE Model(_, _, _)
Model(es, queue, caps) ==
  IF es = <<>> THEN (IF queue = <<>> THEN caps ELSE Store(caps, queue[1], 0))
  ELSE LET x == Head(es) IN
       IF x.e = "EOC" THEN Model(Tail(es), <<U(x.f)>>, IF queue = <<>> THEN caps ELSE Store(caps, queue[1], U(x.f)))
       ELSE Model(Tail(es), <<>>, IF queue = <<>> THEN caps ELSE Store(caps, queue[1], U(x.f)))
\* fix_last_captions_without_ending
FixLast(caps) == [k \in 1..Len(caps) |->
                    IF caps[k].e = 0 /\ (\A j \in k..Len(caps) : caps[j].e = 0) THEN [caps[k] EXCEPT !.e = caps[k].s + 12000000] ELSE caps[k]]
ModelCaps == FixLast(Model(ev, <<>>, <<>>))

Req == LET scr == Screens(ev, <<>>) IN [k \in 1..Len(scr) |-> ScreenTimes(scr, k, TRUE, 0)]
TimingModelMeetsRequirement ==
  LET m == ModelCaps r == Req IN
  /\ Len(m) = Len(r)
  /\ \A k \in 1..Len(r) : FromSmall(m[k].s) = r[k].s /\ FromSmall(m[k].e) \in r[k].ends
=============================================================================
