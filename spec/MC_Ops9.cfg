SPECIFICATION Spec
CONSTANTS
  MaxLen = 9
  Emit = TRUE
INVARIANT LoopMeetsClosedForm
INVARIANT Idempotent
INVARIANT Conserves
INVARIANT VerdictAcceptsModel
INVARIANT EmitCase
CHECK_DEADLOCK FALSE
