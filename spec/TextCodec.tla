------------------------------ MODULE TextCodec ------------------------------
(***************************************************************************)
(* Caption text as sequences of Unicode code points (C03 writers, C04       *)
(* readers).  What a conformant consumer of each format displays:           *)
(*   DecodeVtt  - the WebVTT cue-text tokenizer (character references,      *)
(*                tags removed, <v Name> handled by the caller)             *)
(*   DecodeXml  - XML character data (used for the design model only: the   *)
(*                harness has lxml / html.parser decode DFXP and SAMI)       *)
(* and the escapers of the writers as a design model (EncodeXml, EncodeVtt). *)
(***************************************************************************)
EXTENDS Naturals, Integers, Sequences, TLC

AMP == 38   LT == 60   GT == 62   SEMI == 59   HASH == 35   SP == 32   NBSP == 160
TAB == 9    LF == 10   CR == 13   DASH == 45   PIPE == 124  LRM == 8206  RLM == 8207
LowerX == 120  UpperX == 88

S(str) == str   \* documentation only

\* Unicode white space (what "trimming" and "whitespace runs" mean for any consumer)
IsWs(c) == \/ c \in 9..13 \/ c \in 28..32 \/ c \in {133, NBSP, 5760, 8232, 8233, 8239, 8287, 12288}
           \/ c \in 8192..8202
IsDec(c) == c \in 48..57
IsHex(c) == c \in 48..57 \/ c \in 65..70 \/ c \in 97..102
HexVal(c) == IF c \in 48..57 THEN c - 48 ELSE IF c \in 65..70 THEN c - 55 ELSE c - 87

-----------------------------------------------------------------------------
(* Normalisation *)
RECURSIVE DropLeadWs(_)
DropLeadWs(l) == IF l # <<>> /\ IsWs(Head(l)) THEN DropLeadWs(Tail(l)) ELSE l
RECURSIVE DropTrailWs(_)
DropTrailWs(l) == IF l # <<>> /\ IsWs(l[Len(l)]) THEN DropTrailWs(SubSeq(l, 1, Len(l) - 1)) ELSE l
Trim(l) == DropTrailWs(DropLeadWs(l))
\* whitespace runs -> one space
RECURSIVE Collapse(_, _)
Collapse(l, prevWs) ==
  IF l = <<>> THEN <<>>
  ELSE IF IsWs(Head(l)) THEN (IF prevWs THEN Collapse(Tail(l), TRUE) ELSE <<SP>> \o Collapse(Tail(l), TRUE))
  ELSE <<Head(l)>> \o Collapse(Tail(l), FALSE)
NormLine(l, collapse) == IF collapse THEN Trim(Collapse(l, FALSE)) ELSE Trim(l)
\* lines: trimmed, blank lines (empty, or only whitespace / NBSP) dropped
RECURSIVE NormLines(_, _)
NormLines(ls, collapse) ==
  IF ls = <<>> THEN <<>>
  ELSE LET x == NormLine(Head(ls), collapse) IN
       (IF x = <<>> THEN <<>> ELSE <<x>>) \o NormLines(Tail(ls), collapse)

-----------------------------------------------------------------------------
(* WebVTT cue text: what the tokenizer of the W3C parser yields as text *)
Named == << <<<<97, 109, 112>>, AMP>>,            \* amp
            <<<<108, 116>>, LT>>,                 \* lt
            <<<<103, 116>>, GT>>,                 \* gt
            <<<<108, 114, 109>>, LRM>>,           \* lrm
            <<<<114, 108, 109>>, RLM>>,           \* rlm
            <<<<110, 98, 115, 112>>, NBSP>> >>    \* nbsp

StartsWith(l, p) == Len(l) >= Len(p) /\ SubSeq(l, 1, Len(p)) = p
\* index of the first c in l, 0 if none
RECURSIVE IndexOf(_, _, _)
IndexOf(l, c, k) == IF k > Len(l) THEN 0 ELSE IF l[k] = c THEN k ELSE IndexOf(l, c, k + 1)

RECURSIVE DecRun(_, _, _)
DecRun(l, k, acc) == IF k <= Len(l) /\ IsDec(l[k]) /\ acc < 2000000 THEN DecRun(l, k + 1, acc * 10 + (l[k] - 48)) ELSE <<k, acc>>
RECURSIVE HexRun(_, _, _)
HexRun(l, k, acc) == IF k <= Len(l) /\ IsHex(l[k]) /\ acc < 2000000 THEN HexRun(l, k + 1, acc * 16 + HexVal(l[k])) ELSE <<k, acc>>

\* l starts with '&': <<decoded code point or -1, number of code points consumed>>
RefAt(l, allowNamed) ==
  IF Len(l) >= 3 /\ l[2] = HASH THEN
     IF l[3] \in {LowerX, UpperX} THEN
        LET r == HexRun(l, 4, 0) IN
        IF r[1] > 4 /\ r[1] <= Len(l) /\ l[r[1]] = SEMI THEN <<r[2], r[1]>> ELSE <<-1, 1>>
     ELSE LET r == DecRun(l, 3, 0) IN
        IF r[1] > 3 /\ r[1] <= Len(l) /\ l[r[1]] = SEMI THEN <<r[2], r[1]>> ELSE <<-1, 1>>
  ELSE LET hits == {k \in 1..Len(allowNamed) : StartsWith(Tail(l), allowNamed[k][1] \o <<SEMI>>)} IN
       IF hits = {} THEN <<-1, 1>>
       ELSE LET k == CHOOSE j \in hits : TRUE IN <<allowNamed[k][2], Len(allowNamed[k][1]) + 2>>

RECURSIVE DecodeVtt(_)
DecodeVtt(l) ==
  IF l = <<>> THEN <<>>
  ELSE IF Head(l) = AMP THEN
       LET r == RefAt(l, Named) IN
       IF r[1] < 0 THEN <<AMP>> \o DecodeVtt(Tail(l))
       ELSE <<r[1]>> \o DecodeVtt(SubSeq(l, r[2] + 1, Len(l)))
  ELSE IF Head(l) = LT THEN
       \* a tag runs to the next '>' (or the end of the text) and displays nothing
       LET e == IndexOf(l, GT, 1) IN
       IF e = 0 THEN <<>> ELSE DecodeVtt(SubSeq(l, e + 1, Len(l)))
  ELSE <<Head(l)>> \o DecodeVtt(Tail(l))

XmlNamed == << <<<<97, 109, 112>>, AMP>>, <<<<108, 116>>, LT>>, <<<<103, 116>>, GT>>,
               <<<<113, 117, 111, 116>>, 34>>, <<<<97, 112, 111, 115>>, 39>> >>
\* XML character data without markup (design model; raw '<' is not well-formed)
RECURSIVE DecodeXml(_)
DecodeXml(l) ==
  IF l = <<>> THEN <<>>
  ELSE IF Head(l) = AMP THEN
       LET r == RefAt(l, XmlNamed) IN
       IF r[1] < 0 THEN <<-1>>                                  \* bare ampersand: not well-formed
       ELSE <<r[1]>> \o DecodeXml(SubSeq(l, r[2] + 1, Len(l)))
  ELSE IF Head(l) = LT THEN <<-1>>
  ELSE <<Head(l)>> \o DecodeXml(Tail(l))

-----------------------------------------------------------------------------
(* Design models of the writers' escapers *)
Amp5 == <<AMP, 97, 109, 112, SEMI>>
Lt4 == <<AMP, 108, 116, SEMI>>
Gt4 == <<AMP, 103, 116, SEMI>>
RECURSIVE EncodeXml(_)
EncodeXml(l) == IF l = <<>> THEN <<>>
                ELSE (IF Head(l) = AMP THEN Amp5 ELSE IF Head(l) = LT THEN Lt4
                      ELSE IF Head(l) = GT THEN Gt4 ELSE <<Head(l)>>) \o EncodeXml(Tail(l))
\* WebVTTWriter._encode_illegal_characters: & -> &amp;  < -> &lt;  then --> -> --&gt;
RECURSIVE ReplAmpLt(_)
ReplAmpLt(l) == IF l = <<>> THEN <<>>
                ELSE (IF Head(l) = AMP THEN Amp5 ELSE IF Head(l) = LT THEN Lt4 ELSE <<Head(l)>>) \o ReplAmpLt(Tail(l))
RECURSIVE ReplArrow(_)
ReplArrow(l) == IF l = <<>> THEN <<>>
                ELSE IF StartsWith(l, <<DASH, DASH, GT>>) THEN <<DASH, DASH>> \o Gt4 \o ReplArrow(SubSeq(l, 4, Len(l)))
                ELSE <<Head(l)>> \o ReplArrow(Tail(l))
EncodeVtt(l) == ReplArrow(ReplAmpLt(l))
ContainsArrow(l) == \E k \in 1..(Len(l) - 2) : SubSeq(l, k, k + 2) = <<DASH, DASH, GT>>

-----------------------------------------------------------------------------
(* C03: written text read back by a conformant parser                       *)
(* rec.fmt     : "SRT" "WebVTT" "DFXP" "SAMI" "MicroDVD"                     *)
(* rec.lines   : authored lines of the one caption (code points); empty     *)
(*               lines stand for consecutive breaks                         *)
(* rec.ok      : the independent scanner could parse the document           *)
(* rec.cues    : scanned cues, each a sequence of payload lines; for DFXP   *)
(*               and SAMI already decoded by the XML / HTML parser          *)
(* rec.cues2   : SRT only: the second reading (whitespace-only line = blank) *)

Decoded(fmt, ls) == IF fmt = "WebVTT" THEN [k \in 1..Len(ls) |-> DecodeVtt(ls[k])] ELSE ls
Collapsing(fmt) == fmt \in {"DFXP", "SAMI"}

\* rec.pre / rec.post (optional): the lines of the cues written before and after the caption under
\* test (neighbours make a cue that runs into the next one, or swallows it, visible)
PreCues(rec) == IF "pre" \in DOMAIN rec THEN rec.pre ELSE <<>>
PostCues(rec) == IF "post" \in DOMAIN rec THEN rec.post ELSE <<>>
Wanted(rec) == PreCues(rec) \o <<rec.lines>> \o PostCues(rec)
TextOk(rec, cues) ==
  LET want == Wanted(rec) IN
  /\ Len(cues) = Len(want)
  /\ \A k \in 1..Len(want) :
       NormLines(Decoded(rec.fmt, cues[k]), Collapsing(rec.fmt)) = NormLines(want[k], Collapsing(rec.fmt))

VerdictText(rec) ==
  IF ~rec.ok THEN "OutputNotParseable"
  ELSE IF TextOk(rec, rec.cues) THEN "ok"
  ELSE IF rec.fmt = "SRT" /\ TextOk(rec, rec.cues2) THEN "ok"
  ELSE IF Len(rec.cues) # Len(Wanted(rec)) THEN
       (IF Len(rec.cues) < Len(Wanted(rec)) THEN "CueLostOrMerged" ELSE "CueSplitOrCreated")
  ELSE "TextChanged"

-----------------------------------------------------------------------------
(* C04: authored items -> what a conformant consumer displays                *)
(* item: [t |-> "ch", c]  [t |-> "ent", c]  [t |-> "lit", s]  [t |-> "tag"]  *)
(*       [t |-> "voice", s] (displays s then ": ")  [t |-> "wrap"]  [t |-> "br"] *)
RECURSIVE DisplayAcc(_, _, _)
DisplayAcc(items, cur, acc) ==
  IF items = <<>> THEN Append(acc, cur)
  ELSE LET x == Head(items) IN
    CASE x.t = "ch"    -> DisplayAcc(Tail(items), Append(cur, x.c), acc)
      [] x.t = "ent"   -> DisplayAcc(Tail(items), Append(cur, x.c), acc)
      [] x.t = "lit"   -> DisplayAcc(Tail(items), cur \o x.s, acc)
      [] x.t = "voice" -> DisplayAcc(Tail(items), cur \o x.s \o <<58, SP>>, acc)
      [] x.t = "tag"   -> DisplayAcc(Tail(items), cur, acc)
      [] x.t = "wrap"  -> DisplayAcc(Tail(items), Append(cur, SP), acc)
      [] x.t = "br"    -> DisplayAcc(Tail(items), <<>>, Append(acc, cur))
Display(items) == DisplayAcc(items, <<>>, <<>>)

\* known deviations (known_findings.json), enabled one at a time for re-validation:
\*  "vtt-numeric-literal": a numeric character reference is left as written (item.raw)
\*  "wrap-at-tag-joins"  : a source-line wrap directly next to an inline tag yields no space
RECURSIVE DisplayDevAcc(_, _, _, _)
DisplayDevAcc(items, cur, acc, dev) ==
  IF items = <<>> THEN Append(acc, cur)
  ELSE LET x == Head(items) IN
    CASE x.t = "ch"    -> DisplayDevAcc(Tail(items), Append(cur, x.c), acc, dev)
      [] x.t = "ent"   -> IF dev = "vtt-numeric-literal" /\ x.sp \in {"dec", "hex"}
                          THEN DisplayDevAcc(Tail(items), cur \o x.raw, acc, dev)
                          ELSE DisplayDevAcc(Tail(items), Append(cur, x.c), acc, dev)
      [] x.t = "lit"   -> DisplayDevAcc(Tail(items), cur \o x.s, acc, dev)
      [] x.t = "voice" -> DisplayDevAcc(Tail(items), cur \o x.s \o <<58, SP>>, acc, dev)
      [] x.t = "tag"   -> DisplayDevAcc(Tail(items), cur, acc, dev)
      [] x.t = "wrap"  -> IF dev = "wrap-at-tag-joins" /\ x.attag
                          THEN DisplayDevAcc(Tail(items), cur, acc, dev)
                          ELSE DisplayDevAcc(Tail(items), Append(cur, SP), acc, dev)
      [] x.t = "br"    -> DisplayDevAcc(Tail(items), <<>>, Append(acc, cur), dev)

\* rec.cues : sequence of item sequences; rec.obs = [ok, caps]: caps = per caption the
\* observed lines (code points)
ReadTextAgainst(rec, want) ==
  IF ~rec.obs.ok THEN "WellFormedDocumentRefused"
  ELSE IF Len(rec.obs.caps) # Len(want) THEN "CaptionCount"
  ELSE IF \E k \in 1..Len(want) : NormLines(rec.obs.caps[k], TRUE) # want[k] THEN "TextDiffers"
  ELSE "ok"
VerdictReadText(rec) ==
  ReadTextAgainst(rec, [k \in 1..Len(rec.cues) |-> NormLines(Display(rec.cues[k]), TRUE)])
VerdictReadTextDev(rec) ==
  ReadTextAgainst(rec, [k \in 1..Len(rec.cues) |-> NormLines(DisplayDevAcc(rec.cues[k], <<>>, <<>>, rec.dev), TRUE)])

VerdictTC(rec) == IF rec.k = "text" THEN VerdictText(rec)
                ELSE IF rec.k = "readtext" THEN VerdictReadText(rec)
                ELSE IF rec.k = "readtext_dev" THEN VerdictReadTextDev(rec) ELSE "UnknownRecordKind"
=============================================================================
