SPECIFICATION Spec
CONSTANT MaxBlocks = 3
CONSTANT AsFound = TRUE
CONSTANT AsFoundSrt = FALSE
CONSTANT Emit = FALSE
INVARIANT ReadersMeetRequirement
INVARIANT EmitCase
CHECK_DEADLOCK FALSE
