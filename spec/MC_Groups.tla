------------------------------ MODULE MC_Groups ------------------------------
(* WebVTTWriter._group_cues_by_layout as a state machine, against the          *)
(* requirement of Positioning (C12): the text nodes of one caption become one  *)
(* cue per run of equal layouts, a node without a layout of its own taking the  *)
(* caption's.  Every list of up to MaxNodes node layouts over {none, a, b} and  *)
(* every caption layout in {none, a, c} is stepped through the loop; each list  *)
(* is emitted for replay into the real writer (harness/c12.py, family "mc").    *)
(* AsFound = TRUE is the loop before the repair recorded as KF-C12-2 (a cue     *)
(* was split only while the running layout was set): TLC refutes it.            *)
EXTENDS Naturals, Sequences, TLC, Json
CONSTANTS MaxNodes, AsFound, Emit

Lay == {"none", "a", "b"}
CapLay == {"none", "a", "c"}

VARIABLES nodes, cap, st, phase
vars == <<nodes, cap, st, phase>>

\* the loop: s_text = text has been appended to the cue being assembled, cur = current_layout,
\* groups = layout_groups (their layouts; the cue text is not modelled)
LoopInit == [k |-> 1, cur |-> "none", has_text |-> FALSE, groups |-> <<>>, pc |-> "loop"]
Split(s, l) == IF AsFound THEN s.has_text /\ s.cur # "none" /\ l # s.cur
                          ELSE s.has_text /\ l # s.cur
LoopStep(s) ==
  IF s.pc = "loop" THEN
     IF s.k > Len(nodes) THEN [s EXCEPT !.pc = "after"]
     ELSE LET l == nodes[s.k] IN
          [s EXCEPT !.k = @ + 1, !.cur = l, !.has_text = TRUE,
                    !.groups = IF Split(s, l) THEN Append(@, s.cur) ELSE @]
  ELSE IF s.pc = "after" THEN [s EXCEPT !.groups = IF s.has_text THEN Append(@, s.cur) ELSE @, !.pc = "done"]
  ELSE s
\* _convert_caption: a group without a layout is written with the caption's
Written(g) == [j \in 1..Len(g) |-> IF g[j] = "none" THEN cap ELSE g[j]]

Init == nodes = <<>> /\ cap \in CapLay /\ st = LoopInit /\ phase = "grow"
Grow == /\ phase = "grow" /\ Len(nodes) < MaxNodes
        /\ \E l \in Lay : nodes' = Append(nodes, l)
        /\ UNCHANGED <<cap, st, phase>>
Start == /\ phase = "grow" /\ nodes # <<>>
         /\ phase' = "run" /\ st' = LoopInit /\ UNCHANGED <<nodes, cap>>
Step == /\ phase = "run" /\ st.pc # "done"
        /\ st' = LoopStep(st) /\ UNCHANGED <<nodes, cap, phase>>
Next == Grow \/ Start \/ Step
Spec == Init /\ [][Next]_vars

\* the requirement, as in Positioning!Runs: runs by node layout (fine) or by effective layout (coarse)
Eff(l) == IF l = "none" THEN cap ELSE l
RECURSIVE RunsOf(_, _)
RunsOf(ls, byNode) ==
  IF Len(ls) <= 1 THEN [j \in 1..Len(ls) |-> Eff(ls[j])]
  ELSE IF (IF byNode THEN ls[1] = ls[2] ELSE Eff(ls[1]) = Eff(ls[2])) THEN RunsOf(Tail(ls), byNode)
  ELSE <<Eff(ls[1])>> \o RunsOf(Tail(ls), byNode)
ModelMeetsRequirement ==
  (phase = "run" /\ st.pc = "done") =>
     (Written(st.groups) = RunsOf(nodes, TRUE) \/ Written(st.groups) = RunsOf(nodes, FALSE))
EmitCase == IF Emit /\ phase = "grow" /\ nodes # <<>>
            THEN PrintT("CASE " \o ToJson([nodes |-> nodes, cap |-> cap])) ELSE TRUE
=============================================================================
