--------------------------- MODULE Trace_SccWriter ---------------------------
EXTENDS SccWriter, Json, IOUtils
Cases == ndJsonDeserialize(IOEnv.TRACE_FILE)
VARIABLE i
Init == i \in 1..Len(Cases)
Next == /\ i > 0
        /\ LET v == VerdictWriter(Cases[i]) IN
           IF v = "ok" THEN TRUE ELSE PrintT("REJECT " \o Cases[i].id \o " " \o v)
        /\ i' = 0
Spec == Init /\ [][Next]_i
=============================================================================
