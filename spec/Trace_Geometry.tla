--------------------------- MODULE Trace_Geometry ---------------------------
EXTENDS Geometry, Json, IOUtils, TLC
Cases == ndJsonDeserialize(IOEnv.TRACE_FILE)
Verdict(rec) ==
  CASE rec.k = "parse"   -> VerdictParse(rec)
    [] rec.k = "pair"    -> VerdictPair(rec)
    [] rec.k = "print"   -> VerdictPrint(rec)
    [] rec.k = "padding" -> VerdictPadding(rec)
    [] rec.k = "immut"   -> VerdictImmut(rec)
    [] rec.k = "rel"     -> VerdictRel(rec)
    [] rec.k = "rel_dev" -> VerdictRelDev(rec)
    [] OTHER -> "UnknownRecordKind"
VARIABLE i
Init == i \in 1..Len(Cases)
Next == /\ i > 0
        /\ LET v == Verdict(Cases[i]) IN
           IF v = "ok" THEN TRUE ELSE PrintT("REJECT " \o Cases[i].id \o " " \o v)
        /\ i' = 0
Spec == Init /\ [][Next]_i
=============================================================================
