------------------------------- MODULE BigNat -------------------------------
(***************************************************************************)
(* Exact arithmetic beyond TLC's 32-bit integers.                           *)
(* A BigNat is a sequence of limbs in 0..9999, least significant first,     *)
(* without trailing zero limbs; zero is <<>>.  Small factors and divisors   *)
(* (<= 200000) keep every intermediate product below 2^31.                  *)
(* A BigInt is [s |-> 1 | -1, m |-> BigNat]; zero has s = 1.                *)
(***************************************************************************)
EXTENDS Naturals, Integers, Sequences

Base == 10000
MaxSmall == 200000

IsBig(a) == /\ \A k \in 1..Len(a) : a[k] \in 0..(Base - 1)
            /\ (a = <<>> \/ a[Len(a)] # 0)

RECURSIVE Strip(_)
Strip(a) == IF a # <<>> /\ a[Len(a)] = 0 THEN Strip(SubSeq(a, 1, Len(a) - 1)) ELSE a

RECURSIVE FromSmall(_)
FromSmall(n) == IF n = 0 THEN <<>> ELSE <<n % Base>> \o FromSmall(n \div Base)

\* value of a BigNat that is known to fit (tests only)
RECURSIVE ToSmall(_)
ToSmall(a) == IF a = <<>> THEN 0 ELSE Head(a) + Base * ToSmall(Tail(a))

H(a) == IF a = <<>> THEN 0 ELSE Head(a)
T(a) == IF a = <<>> THEN <<>> ELSE Tail(a)

RECURSIVE AddC(_, _, _)
AddC(a, b, c) ==
  IF a = <<>> /\ b = <<>> THEN (IF c = 0 THEN <<>> ELSE <<c>>)
  ELSE LET s == H(a) + H(b) + c IN <<s % Base>> \o AddC(T(a), T(b), s \div Base)
Add(a, b) == Strip(AddC(a, b, 0))

RECURSIVE MulC(_, _, _)
MulC(a, k, c) ==
  IF a = <<>> THEN FromSmall(c)
  ELSE LET p == Head(a) * k + c IN <<p % Base>> \o MulC(Tail(a), k, p \div Base)
\* k in 0..MaxSmall
MulSmall(a, k) == IF k = 0 THEN <<>> ELSE Strip(MulC(a, k, 0))

RECURSIVE Zeros(_)
Zeros(n) == IF n = 0 THEN <<>> ELSE <<0>> \o Zeros(n - 1)
Shift(a, n) == IF a = <<>> THEN <<>> ELSE Zeros(n) \o a

RECURSIVE MulAcc(_, _, _)
MulAcc(a, b, k) == IF k > Len(b) THEN <<>> ELSE Add(Shift(MulSmall(a, b[k]), k - 1), MulAcc(a, b, k + 1))
Mul(a, b) == MulAcc(a, b, 1)

\* -1, 0, 1
RECURSIVE CmpFrom(_, _, _)
CmpFrom(a, b, k) == IF k = 0 THEN 0
                    ELSE IF a[k] < b[k] THEN -1 ELSE IF a[k] > b[k] THEN 1 ELSE CmpFrom(a, b, k - 1)
Cmp(a, b) == IF Len(a) < Len(b) THEN -1 ELSE IF Len(a) > Len(b) THEN 1 ELSE CmpFrom(a, b, Len(a))
Leq(a, b) == Cmp(a, b) <= 0
Lt(a, b) == Cmp(a, b) < 0

\* a - b, requires Leq(b, a)
RECURSIVE SubB(_, _, _)
SubB(a, b, br) ==
  IF a = <<>> THEN <<>>
  ELSE LET d == Head(a) - H(b) - br IN
       IF d < 0 THEN <<d + Base>> \o SubB(Tail(a), T(b), 1) ELSE <<d>> \o SubB(Tail(a), T(b), 0)
Sub(a, b) == Strip(SubB(a, b, 0))

\* <<quotient, remainder>> for divisor d in 1..MaxSmall; remainder is a small Nat
RECURSIVE DivFrom(_, _, _, _)
DivFrom(a, d, k, r) ==
  IF k = 0 THEN <<<<>>, r>>
  ELSE LET cur  == r * Base + a[k]
           rest == DivFrom(a, d, k - 1, cur % d)
       IN  <<Append(rest[1], cur \div d), rest[2]>>
\* the recursion bottoms out at the least significant limb, so Append yields little endian
DivModSmall(a, d) == LET r == DivFrom(a, d, Len(a), 0) IN <<Strip(r[1]), r[2]>>
DivSmall(a, d) == DivModSmall(a, d)[1]

Pow10Limb(n) == \* 10^n as BigNat, n >= 0
  Shift(FromSmall(IF n % 4 = 0 THEN 1 ELSE IF n % 4 = 1 THEN 10 ELSE IF n % 4 = 2 THEN 100 ELSE 1000), n \div 4)
MulPow10(a, n) == Shift(MulSmall(a, IF n % 4 = 0 THEN 1 ELSE IF n % 4 = 1 THEN 10 ELSE IF n % 4 = 2 THEN 100 ELSE 1000), n \div 4)

\* decimal digit sequence (most significant first, digits 0..9) -> BigNat
RECURSIVE FromDigitsAcc(_, _)
FromDigitsAcc(ds, acc) == IF ds = <<>> THEN acc
                          ELSE FromDigitsAcc(Tail(ds), Add(MulSmall(acc, 10), FromSmall(Head(ds))))
FromDigits(ds) == FromDigitsAcc(ds, <<>>)

-----------------------------------------------------------------------------
(* signed *)
Int0 == [s |-> 1, m |-> <<>>]
MkInt(s, m) == IF m = <<>> THEN Int0 ELSE [s |-> s, m |-> m]
IsInt(x) == x.s \in {1, -1} /\ IsBig(x.m) /\ (x.m = <<>> => x.s = 1)
INeg(x) == MkInt(0 - x.s, x.m)
IAdd(x, y) ==
  IF x.s = y.s THEN MkInt(x.s, Add(x.m, y.m))
  ELSE IF Leq(y.m, x.m) THEN MkInt(x.s, Sub(x.m, y.m)) ELSE MkInt(y.s, Sub(y.m, x.m))
ISub(x, y) == IAdd(x, INeg(y))
IMulSmall(x, k) == MkInt(x.s, MulSmall(x.m, k))       \* k >= 0
ICmp(x, y) == IF x.s # y.s THEN (IF x.s < y.s THEN -1 ELSE 1)
              ELSE IF x.s = 1 THEN Cmp(x.m, y.m) ELSE Cmp(y.m, x.m)
IIsNeg(x) == x.s = -1
IAbsDiffLeq(x, y, tol) == Leq(ISub(x, y).m, tol)
=============================================================================
