---------------------------- MODULE Trace_Blocks ----------------------------
EXTENDS Blocks, Json, IOUtils
Cases == ndJsonDeserialize(IOEnv.TRACE_FILE)
VerdictB(rec) == IF rec.k = "blocks" THEN VerdictBlocks(rec)
                 ELSE IF rec.k = "blocks_dev" THEN VerdictBlocksDev(rec) ELSE "UnknownRecordKind"
VARIABLE i
Init == i \in 1..Len(Cases)
Next == /\ i > 0
        /\ LET v == VerdictB(Cases[i]) IN
           IF v = "ok" THEN TRUE ELSE PrintT("REJECT " \o Cases[i].id \o " " \o v)
        /\ i' = 0
Spec == Init /\ [][Next]_i
=============================================================================
