------------------------------- MODULE Session -------------------------------
(***************************************************************************)
(* Histories of read / write / edit calls on shared reader, writer and      *)
(* caption-set objects (C09, C10).                                          *)
(*                                                                          *)
(* Requirement level (used to judge recorded histories): a state maps every *)
(* live set to its canonical dump; one operator per kind of event checks    *)
(* the event against the state and yields the next state.  Every dump and   *)
(* every output is compared with the value a pristine interpreter (fresh    *)
(* process, other hash seed, fresh objects) computes for the same term, so  *)
(* "function of document and options only" and "byte-identical whatever the *)
(* history" are equalities the trace must satisfy at every step.            *)
(***************************************************************************)
EXTENDS Naturals, Sequences, FiniteSets, TLC

\* ---------------------------------------------------------------- requirement
\* state: [dump |-> function from set ids (strings) to dump digests, err |-> string]
Init0 == [dump |-> <<>>, err |-> "ok"]
Live(st) == DOMAIN st.dump
\* the dumps reported with an event: a record set id -> digest covering all live sets
Unchanged(st, ev, except) ==
  \A x \in Live(st) : x \in except \/ (x \in DOMAIN ev.dumps /\ ev.dumps[x] = st.dump[x])
Fail(st, why) == [st EXCEPT !.err = why]

ReadStep(st, ev) ==
  IF ~Unchanged(st, ev, {}) THEN Fail(st, "ReadChangedAnExistingSet")
  \* a read that raises must be one that raises in a pristine interpreter too, with the same
  \* exception (the document is at fault, not the history); it creates no set
  ELSE IF ev.raised THEN (IF ev.pristine = "raise:" \o ev.err THEN st ELSE Fail(st, "ReadRefusedValidDocument"))
  ELSE IF ev.dumps[ev.set] # ev.pristine THEN Fail(st, "ReadDependsOnHistoryOrHashSeed")
  ELSE [st EXCEPT !.dump = (ev.set :> ev.dumps[ev.set]) @@ st.dump]

WriteStep(st, ev) ==
  IF ev.set \in DOMAIN ev.dumps /\ ev.dumps[ev.set] # st.dump[ev.set] THEN Fail(st, "WriteAlteredItsInput")
  ELSE IF ~Unchanged(st, ev, {}) THEN Fail(st, "WriteAlteredAnotherSet")
  ELSE IF ev.raised # ev.pristine_raised THEN Fail(st, "WriteOutcomeDependsOnHistory")
  ELSE IF ~ev.raised /\ ev.out # ev.pristine THEN Fail(st, "WriteOutputDependsOnHistoryOrHashSeed")
  ELSE st

EditStep(st, ev) ==
  IF ~Unchanged(st, ev, {ev.set}) THEN Fail(st, "EditLeakedIntoAnotherSet")
  ELSE IF ev.dumps[ev.set] # ev.pristine THEN Fail(st, "EditResultDependsOnHistory")
  ELSE [st EXCEPT !.dump = (ev.set :> ev.dumps[ev.set]) @@ st.dump]

DropStep(st, ev) ==
  IF ~Unchanged(st, ev, {ev.set}) THEN Fail(st, "DropChangedAnotherSet")
  ELSE [st EXCEPT !.dump = [x \in (Live(st) \ {ev.set}) |-> st.dump[x]]]

StepReq(st, ev) ==
  CASE ev.op = "read"  -> ReadStep(st, ev)
    [] ev.op = "write" -> WriteStep(st, ev)
    [] ev.op = "edit"  -> EditStep(st, ev)
    [] ev.op = "drop"  -> DropStep(st, ev)
    [] OTHER -> Fail(st, "UnknownEvent")

RECURSIVE RunReq(_, _, _)
RunReq(st, evs, k) ==
  IF k > Len(evs) THEN "ok"
  ELSE LET n == StepReq(st, evs[k]) IN
       IF n.err # "ok" THEN n.err \o "@step" \o ToString(k) \o ":" \o evs[k].op \o ":" \o evs[k].kind
       ELSE RunReq(n, evs, k + 1)
VerdictHistory(rec) == RunReq(Init0, rec.events, 1)
=============================================================================
