SPECIFICATION Spec
CONSTANT MaxBlocks = 3
CONSTANT AsFound = FALSE
CONSTANT AsFoundSrt = FALSE
CONSTANT Emit = TRUE
INVARIANT ReadersMeetRequirement
INVARIANT EmitCase
CHECK_DEADLOCK FALSE
