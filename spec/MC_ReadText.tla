---------------------------- MODULE MC_ReadText ----------------------------
(* C04 case space: every sequence of up to MaxItems authored units over a     *)
(* vocabulary of characters, character references (three spellings), literal  *)
(* entity-looking text, tagged spans (two nesting levels), source-line wraps   *)
(* and line breaks.  Invariants are properties of the oracle (Display): what   *)
(* is displayed consists of authored characters only, references contribute    *)
(* exactly one character, tags none.  Every sequence is emitted; the harness   *)
(* serialises it with its own per-format serialisers and has the real reader   *)
(* read it.                                                                    *)
EXTENDS TextCodec, Json
CONSTANTS MaxItems, Emit

Ch(c) == [t |-> "ch", c |-> c]
Ent(c, sp) == [t |-> "ent", c |-> c, sp |-> sp]
Lit(s) == [t |-> "lit", s |-> s, raw |-> FALSE]
Tag(kind, open) == [t |-> "tag", kind |-> kind, open |-> open]
Tagged(kind, inner) == <<Tag(kind, TRUE)>> \o inner \o <<Tag(kind, FALSE)>>

\* units: each a short item sequence
Units == <<
  <<Ch(97)>>, <<Ch(98)>>, <<Ch(SP)>>, <<Ch(AMP)>>, <<Ch(LT)>>, <<Ch(GT)>>, <<Ch(39)>>, <<Ch(34)>>,
  <<Ent(AMP, "named")>>, <<Ent(AMP, "dec")>>, <<Ent(AMP, "hex")>>,
  <<Ent(LT, "named")>>, <<Ent(LT, "dec")>>, <<Ent(233, "named")>>, <<Ent(233, "hex")>>, <<Ent(39, "named")>>,
  <<Lit(<<AMP, 108, 116, SEMI>>)>>,               \* the four characters &lt;
  <<Lit(<<AMP, 97, 109, 112, SEMI>>)>>,           \* the five characters &amp;
  <<Lit(<<AMP, HASH, 54, 53, SEMI>>)>>,           \* the five characters &#65;
  Tagged("i", <<Ch(120)>>), Tagged("b", <<Ch(120)>>), Tagged("u", <<Ch(120)>>),
  Tagged("span", <<Ch(120)>>), Tagged("spanstyle", <<Ch(120)>>),
  Tagged("i", Tagged("b", <<Ch(120)>>)), Tagged("spanstyle", Tagged("span", <<Ch(120), Ch(SP), Ch(121)>>)),
  Tagged("c", <<Ch(120)>>), Tagged("ruby", <<Ch(120)>> \o Tagged("rt", <<Ch(121)>>)), Tagged("lang", <<Ch(120)>>),
  <<[t |-> "voice", s |-> <<66, 111, 98>>]>> \o <<Ch(120)>> \o <<Tag("v", FALSE)>>,
  <<Tag("ts", TRUE)>>,
  <<[t |-> "lit", s |-> <<LT, 102, 111, 111, GT>>, raw |-> TRUE]>>,      \* unknown tag <foo>, stays literal
  <<[t |-> "wrap"]>>, <<[t |-> "br"]>>
>>
NU == Len(Units)

VARIABLE seq          \* sequence of unit indices
Init == seq = <<>>
Next == Len(seq) < MaxItems /\ \E u \in 1..NU : seq' = Append(seq, u)
Spec == Init /\ [][Next]_seq

RECURSIVE Flat(_)
Flat(s) == IF s = <<>> THEN <<>> ELSE Units[Head(s)] \o Flat(Tail(s))
Items == Flat(seq)

\* number of characters the author put in
RECURSIVE Authored(_)
Authored(items) ==
  IF items = <<>> THEN 0
  ELSE LET x == Head(items) IN
       (CASE x.t \in {"ch", "ent", "wrap"} -> 1 [] x.t = "lit" -> Len(x.s)
          [] x.t = "voice" -> Len(x.s) + 2 [] OTHER -> 0) + Authored(Tail(items))
RECURSIVE Total(_)
Total(ls) == IF ls = <<>> THEN 0 ELSE Len(Head(ls)) + Total(Tail(ls))
\* decode-once / tags-contribute-nothing, as a property of the oracle
DisplaySane == Total(Display(Items)) = Authored(Items)
LinesSane == Len(Display(Items)) = 1 + Len(SelectSeq(Items, LAMBDA x : x.t = "br"))
EmitCase == IF Emit /\ seq # <<>> THEN PrintT("CASE " \o ToJson([items |-> Items])) ELSE TRUE
=============================================================================
