----------------------------- MODULE SccReader -----------------------------
(***************************************************************************)
(* The control skeleton of pycaption's SCCReader, shaped like the code:    *)
(* one operator per critical section of pycaption/scc/__init__.py and      *)
(* scc/specialized_collections.py.                                         *)
(*                                                                         *)
(*   _handle_double_command      -> Doubled                                *)
(*   _translate_command branches -> Rcl, Rdc, Ru, Enm, Eoc, Cr, Edm, Other *)
(*   NotifyingDict.set_active + _flush_implicit_buffers -> SetActive, Flush *)
(*   _roll_up, _pop_on           -> RollUp, PopOn                          *)
(*   CaptionCreator.create_and_store + TimingCorrectingCaptionList.extend  *)
(*                               -> Store                                  *)
(*   CaptionCreator.correct_last_timing(force=True) -> CorrectLast         *)
(*   _SccTimeTranslator          -> base / frames, Now                     *)
(*                                                                         *)
(* What is abstracted: a buffer is only empty or not (its text, italics    *)
(* and positions belong to Scc608, the reference decoder); a stored batch  *)
(* is n captions sharing one (start, end); time is a frame count (label of *)
(* the line in frames + words consumed), 0 standing for "no end yet" as in *)
(* the code.  simulate_roll_up and a non-zero offset are not modelled.     *)
(*                                                                         *)
(* The same Step operator serves (i) the model checker (MC_SccReader: every *)
(* word sequence up to a bound, invariants and the comparison with the     *)
(* timing requirement) and (ii) trace validation (Trace_SccReader: events  *)
(* logged by the guarded hook after every word are replayed through Step   *)
(* and the logged state is compared with the model's after each one).      *)
(***************************************************************************)
EXTENDS Naturals, Sequences, TLC

Modes == {"pop", "roll", "paint"}
CueStart == {"RCL", "RDC", "RU2", "RU3", "RU4"}
\* word classes: the control codes the reader acts on, and the rest
Classes == CueStart \cup {"ENM", "EOC", "CR", "EDM", "BS", "CTL", "PAC", "TO", "MID", "SPECIAL", "EXT", "CHARS"}

Init0 == [mode |-> "pop",
          empty |-> [m \in Modes |-> TRUE],
          q |-> <<>>,                 \* pop_ons_queue: start frames of displayed, not yet stored cues
          stash |-> <<>>,             \* CaptionCreator._collection: [s, e] per caption
          still |-> 0,                \* size of _still_editing / _last_batch (the batch stored last)
          time |-> 0,                 \* SCCReader.time
          base |-> 0, frames |-> 0,   \* _SccTimeTranslator: label of the line, words consumed on it
          \* last_command: the string, whether it is exactly one PAC word, and the PAC word at the
          \* head of a "PAC TO" string (for the `word in last_command` test)
          lc |-> [last |-> "", lastPac |-> FALSE, lastHead |-> ""],
          dstart |-> FALSE,           \* double_starter
          rows |-> 0]                 \* roll_rows_expected

Now(st) == st.base + st.frames

(* ------------------------------------------------------------------ storing *)
\* TimingCorrectingCaptionList.extend -> _update_last_batch: the batch stored last gets the new
\* start as its end when it has none yet or when the gap is below "5 frames + 1 us"
Store(st, s, e, n, joinAtMost) ==
  LET k == Len(st.stash)
      lastEnd == IF st.still > 0 /\ k > 0 THEN st.stash[k].e ELSE 0
      join == st.still > 0 /\ k > 0 /\ (lastEnd = 0 \/ (s >= lastEnd /\ s - lastEnd <= joinAtMost) \/ s < lastEnd)
      fixed == [j \in 1..k |-> IF join /\ j > k - st.still THEN [st.stash[j] EXCEPT !.e = s] ELSE st.stash[j]]
  IN [st EXCEPT !.stash = fixed \o [j \in 1..n |-> [s |-> s, e |-> e]], !.still = n]

\* CaptionCreator.correct_last_timing(end, force=True)
CorrectLast(st, e) ==
  LET k == Len(st.stash) IN
  [st EXCEPT !.stash = [j \in 1..k |-> IF j > k - st.still THEN [st.stash[j] EXCEPT !.e = e] ELSE st.stash[j]]]

\* SCCReader._pop_on(end): the oldest displayed cue becomes captions
PopOn(st, e, n, J) ==
  LET s == st.q[Len(st.q)] IN
  [Store(st, s, e, n, J) EXCEPT !.q = SubSeq(st.q, 1, Len(st.q) - 1)]

\* SCCReader._roll_up (simulate_roll_up = False)
RollUp(st, n, J) ==
  LET a == Store(st, st.time, 0, n, J)
      b == [a EXCEPT !.empty[st.mode] = TRUE, !.time = Now(st)]
  IN CorrectLast(b, Now(st))

\* SCCReader._flush_implicit_buffers(old_key)
Flush(st, n, J) ==
  CASE st.mode = "pop"   -> IF st.q # <<>> THEN PopOn(st, 0, n, J) ELSE st
    [] st.mode = "roll"  -> IF ~st.empty["roll"] THEN RollUp(st, n, J) ELSE st
    [] st.mode = "paint" -> IF ~st.empty["paint"]
                              THEN [Store(st, st.time, 0, n, J) EXCEPT !.empty["paint"] = TRUE] ELSE st

\* NotifyingDict.set_active: observers run before the key changes
SetActive(st, key, n, J) == IF key = st.mode THEN st ELSE [Flush(st, n, J) EXCEPT !.mode = key]

(* -------------------------------------------------- _handle_double_command *)
\* -> [skip |-> BOOLEAN, st |-> state with last_command / double_starter updated]
Doubled(st, w, c) ==
  LET isPac == c = "PAC"
      isCmd == c \in (CueStart \cup {"ENM", "EOC", "CR", "EDM", "CTL", "TO", "MID"})   \* in COMMANDS, not 94a1
      dtypes == isCmd \/ isPac \/ c = "SPECIAL" \/ (st.dstart /\ c \in {"EXT", "BS"})
      s1 == IF c \in CueStart /\ w # st.lc.last THEN [st EXCEPT !.dstart = FALSE] ELSE st
      clear == [last |-> "", lastPac |-> FALSE, lastHead |-> ""] IN
  IF dtypes /\ w = s1.lc.last
    THEN [skip |-> TRUE, st |-> [s1 EXCEPT !.dstart = IF c \in CueStart THEN TRUE ELSE @, !.lc = clear]]
  ELSE IF isPac /\ w = s1.lc.lastHead               \* `word in last_command`: "PAC TO" followed by the same PAC
    THEN [skip |-> TRUE, st |-> [s1 EXCEPT !.lc = clear]]
  ELSE IF c = "TO"
    THEN (IF s1.lc.lastPac
            THEN [skip |-> FALSE, st |-> [s1 EXCEPT !.lc = [last |-> s1.lc.last \o " " \o w, lastPac |-> FALSE, lastHead |-> s1.lc.last]]]
            ELSE [skip |-> TRUE, st |-> s1])
  ELSE [skip |-> FALSE, st |-> [s1 EXCEPT !.lc = [last |-> w, lastPac |-> isPac, lastHead |-> ""]]]

(* ------------------------------------------------------ _translate_command *)
\* n: how many captions a store made by this word creates (content-dependent: read from the log,
\*    or chosen by the model checker); after: emptiness of the active buffer after a word whose
\*    effect on the text is not modelled here
Act(st, c, n, after, J) ==
  CASE c = "RCL" -> SetActive(st, "pop", n, J)
    [] c = "RDC" ->
         LET a == SetActive(st, "paint", n, J)
             b == IF ~a.empty["paint"] THEN [Store(a, a.time, 0, n, J) EXCEPT !.empty["paint"] = TRUE] ELSE a
         IN [b EXCEPT !.rows = 1, !.time = Now(st)]
    [] c \in {"RU2", "RU3", "RU4"} ->
         LET a == SetActive(st, "roll", n, J)
             b == IF ~a.empty["roll"] THEN [Store(a, a.time, 0, n, J) EXCEPT !.empty["roll"] = TRUE] ELSE a
         IN [b EXCEPT !.rows = CASE c = "RU2" -> 2 [] c = "RU3" -> 3 [] OTHER -> 4, !.time = Now(st)]
    [] c = "ENM" -> [st EXCEPT !.empty[st.mode] = TRUE]
    [] c = "EOC" ->
         LET a == [st EXCEPT !.time = Now(st)]
             b == IF a.q # <<>> THEN PopOn(a, a.time, n, J) ELSE a
         IN IF b.empty[b.mode] THEN b
            ELSE [b EXCEPT !.q = <<b.time>> \o @, !.empty[b.mode] = TRUE]
    [] c = "CR" -> IF ~st.empty[st.mode] THEN RollUp(st, n, J) ELSE st
    [] c = "EDM" -> IF st.q # <<>> THEN PopOn(st, Now(st), n, J) ELSE st
    [] OTHER -> [st EXCEPT !.empty[st.mode] = after]     \* PAC, TO, MID, BS, CTL, SPECIAL, EXT, CHARS

\* one word: _translate_word
Step(st, w, c, n, after, J) ==
  LET d == Doubled(st, w, c)
      a == IF d.skip THEN d.st ELSE Act(d.st, c, n, after, J)
  IN [skip |-> d.skip, st |-> [a EXCEPT !.frames = @ + 1]]

\* a new line: _SccTimeTranslator.continues_at / start_at.  A word repeats the one before it only
\* when it is sent in the very next frame: a line that does not go on where the previous one
\* stopped forgets last_command (so a later line may start with the code the previous one ended
\* with - "942f" ... "942f" in a single-coded stream - and have it executed)
Line(st, f) == [st EXCEPT !.base = f, !.frames = 0,
                          !.lc = IF f = Now(st) THEN @ ELSE [last |-> "", lastPac |-> FALSE, lastHead |-> ""]]
\* as found (before the repair recorded as KF-C06-2): last_command survived any line change
LineAsFound(st, f) == [st EXCEPT !.base = f, !.frames = 0]
\* end of read(): the final flush
End(st, n, J) == Flush(st, n, J)
=============================================================================
