------------------------------- MODULE MC_Rel -------------------------------
(* C13 case space: units x values x axes x video sizes x relativize x fit,    *)
(* and origins / extents around the 90 / 95 clamp.  The design model of the   *)
(* code path (ModelRecord) must satisfy the requirement (VerdictRel) in every *)
(* case; each case is emitted for replay against the three writers.           *)
EXTENDS Geometry, Json
CONSTANTS Emit, Full

None == [cls |-> "none"]
S(num, den, u) == [cls |-> "size", n |-> FromSmall(num), d |-> FromSmall(den), u |-> u]
Pt(a, b) == [cls |-> "point", x |-> a, y |-> b]
St(a, b) == [cls |-> "stretch", h |-> a, v |-> b]
Pad(a) == [cls |-> "padding", b |-> a, a |-> a, s |-> a, e |-> a]
Lay(o, e, p) == [cls |-> "layout", o |-> o, e |-> e, p |-> p]

Vals == IF Full THEN {<<0, 1>>, <<1, 1>>, <<5, 2>>, <<8, 1>>, <<12, 1>>, <<64, 1>>, <<100, 1>>, <<640, 1>>}
        ELSE {<<0, 1>>, <<5, 2>>, <<12, 1>>, <<64, 1>>}
Dims == {<<[has |-> TRUE, v |-> 640], [has |-> TRUE, v |-> 360]>>,
         <<[has |-> TRUE, v |-> 640], [has |-> FALSE, v |-> 1]>>,
         <<[has |-> FALSE, v |-> 1], [has |-> TRUE, v |-> 360]>>,
         <<[has |-> FALSE, v |-> 1], [has |-> FALSE, v |-> 1]>>,
         <<[has |-> TRUE, v |-> 1920], [has |-> TRUE, v |-> 1080]>>}
Writers == {"DFXP", "SAMI", "WebVTT"}

\* A: unit conversion; the same size in every part that exists
UnitCases(w, r, dm) ==
  { [lay |-> Lay(IF sh[1] THEN Pt(S(v[1], v[2], u), S(v[1], v[2], u)) ELSE None,
                 IF sh[2] THEN St(S(v[1], v[2], u), S(v[1], v[2], u)) ELSE None,
                 IF sh[3] THEN Pad(S(v[1], v[2], u)) ELSE None),
     W |-> dm[1], H |-> dm[2], relativize |-> r, fit |-> f, writer |-> w] :
    u \in Units, v \in Vals, f \in BOOLEAN,
    sh \in (IF w = "WebVTT" THEN {<<TRUE, FALSE, FALSE>>, <<TRUE, TRUE, FALSE>>, <<TRUE, TRUE, TRUE>>}
            ELSE {<<TRUE, FALSE, FALSE>>, <<FALSE, FALSE, TRUE>>, <<TRUE, TRUE, TRUE>>}) }

\* B: the clamp boundary, in hundredths of a percent
Xs == IF Full THEN {0, 1000, 4500, 8999, 9000, 9001} ELSE {1000, 4500, 9000}
Ys == IF Full THEN {0, 500, 4500, 9499, 9500, 9501} ELSE {500, 4500, 9500}
Es == IF Full THEN {-1, 0, 1, 4500, 4501, 8000, 8999, 9000} ELSE {-1, 0, 4500, 4501, 8000}
FitCases(w, r, x) ==
  { [lay |-> Lay(Pt(S(x, 100, "%"), S(y, 100, "%")),
                 IF eh = -1 THEN None ELSE St(S(eh, 100, "%"), S(ev, 100, "%")), None),
     W |-> [has |-> FALSE, v |-> 1], H |-> [has |-> FALSE, v |-> 1],
     relativize |-> r, fit |-> TRUE, writer |-> w] :
    y \in Ys, eh \in Es, ev \in (Es \ {-1}) }

\* the case space is split over initial selectors so that the workers share it
VARIABLES sel, c
Init == /\ c = None
        /\ sel \in ({<<"U", w, r, dm>> : w \in Writers, r \in BOOLEAN, dm \in Dims}
                    \cup {<<"F", w, r, x>> : w \in {"DFXP", "WebVTT"}, r \in BOOLEAN, x \in Xs})
Next == /\ c = None
        /\ c' \in (IF sel[1] = "U" THEN UnitCases(sel[2], sel[3], sel[4]) ELSE FitCases(sel[2], sel[3], sel[4]))
        /\ sel' = sel
Spec == Init /\ [][Next]_<<sel, c>>

ModelMeetsRequirement == c # None => VerdictRel(ModelRecord(c)) = "ok"
EmitCase == IF Emit /\ c # None THEN PrintT("CASE " \o ToJson(c)) ELSE TRUE
=============================================================================
