SPECIFICATION Spec
CONSTANTS
  MaxLen = 4
  SrtGuard = TRUE
  Emit = TRUE
INVARIANT ModelMeetsRequirement
INVARIANT EmitCase
CHECK_DEADLOCK FALSE
