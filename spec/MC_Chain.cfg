SPECIFICATION Spec
CONSTANTS
  MaxLen = 2
  Emit = TRUE
INVARIANT ClosedForm
INVARIANT SecondPassIdentity
INVARIANT EmitCase
CHECK_DEADLOCK FALSE
