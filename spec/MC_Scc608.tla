----------------------------- MODULE MC_Scc608 -----------------------------
(* The reference decoder under every raw command sequence up to Depth over a   *)
(* small action alphabet (well-formed or not): it is total, the cursor stays   *)
(* on the grid, a screen never shows more characters than were sent, End-Of-   *)
(* Caption swaps the memories, and the caption extraction partitions the used   *)
(* rows into groups of adjacent rows.                                           *)
EXTENDS Scc608
CONSTANTS Depth

Acts == { [k |-> "PAC", r |-> 14, c |-> 0, i |-> FALSE, w |-> 1], [k |-> "PAC", r |-> 15, c |-> 28, i |-> FALSE, w |-> 1],
          [k |-> "PAC", r |-> 2, c |-> 0, i |-> TRUE, w |-> 1], [k |-> "TO", n |-> 3, w |-> 1],
          [k |-> "CH", a |-> 65, b |-> 98, w |-> 1], [k |-> "CH", a |-> 120, b |-> 0, w |-> 1], [k |-> "CH", a |-> 32, b |-> 32, w |-> 1],
          [k |-> "SP", x |-> 9834, w |-> 1], [k |-> "EXT", x |-> 233, w |-> 1], [k |-> "BS", w |-> 1],
          [k |-> "MID", i |-> TRUE, w |-> 1], [k |-> "MID", i |-> FALSE, w |-> 1],
          [k |-> "RCL", w |-> 1], [k |-> "ENM", w |-> 1], [k |-> "EDM", w |-> 1], [k |-> "EOC", w |-> 1], [k |-> "NOP", w |-> 1] }

VARIABLES st, n, sent     \* decoder state, words so far, displayable characters sent so far
Init == st = InitSt /\ n = 0 /\ sent = 0
Next == /\ n < Depth
        /\ \E a \in Acts :
             /\ st' = Step(st, a, n)
             /\ sent' = sent + (IF a.k = "CH" THEN (IF a.b = 0 THEN 1 ELSE 2) ELSE IF a.k \in {"SP", "EXT"} THEN 1 ELSE 0)
        /\ n' = n + 1
Spec == Init /\ [][Next]_<<st, n, sent>>

CountVisible(m) == Cardinality({<<r, c>> \in Rows \X Cols : m[r][c].ch > 0})
TypeOK == st.row \in Rows /\ st.col \in Cols /\ st.pen \in BOOLEAN
NoInvention == CountVisible(st.ndm) + CountVisible(st.dm) <= sent
GroupsPartition ==
  LET caps == ScreenCaps(st.dm) IN
  /\ \A k \in 1..Len(caps) : caps[k].lines # <<>> /\ RowUsed(st.dm, caps[k].row)
  /\ \A r \in RowsUsed(st.dm) : \E k \in 1..Len(caps) : r \in caps[k].row..(caps[k].row + Len(caps[k].lines) - 1)
  /\ \A k \in 1..(Len(caps) - 1) : caps[k].row + Len(caps[k].lines) < caps[k + 1].row
EventsOrdered == \A k \in 1..(Len(st.ev) - 1) : st.ev[k].f <= st.ev[k + 1].f
=============================================================================
