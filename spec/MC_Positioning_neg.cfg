SPECIFICATION Spec
CONSTANTS
  PlainNodeLayoutLost = TRUE
  RestrictToStyled = FALSE
  Emit = FALSE
INVARIANT RoundTripKeepsEffectiveLayout
INVARIANT EmitCase
CHECK_DEADLOCK FALSE
