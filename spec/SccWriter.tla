------------------------------ MODULE SccWriter ------------------------------
(***************************************************************************)
(* C17: what SCCWriter must emit.  The output is scanned by the harness     *)
(* into lines [tc, bytes, syms] (syms = the words as decoder symbols, a      *)
(* repeated control pair folded into one symbol with w = 2) and decoded     *)
(* here with the reference decoder of module Scc608.                        *)
(***************************************************************************)
EXTENDS Scc608

\* odd parity of a byte
RECURSIVE Ones(_)
Ones(b) == IF b = 0 THEN 0 ELSE (b % 2) + Ones(b \div 2)
OddParity(b) == Ones(b) % 2 = 1

\* split a row of cells into words (maximal runs of visible characters)
RECURSIVE Words(_, _, _)
Words(cells, cur, acc) ==
  IF cells = <<>> THEN (IF cur = <<>> THEN acc ELSE Append(acc, cur))
  ELSE LET x == Head(cells) IN
       IF x.ch > 0 /\ x.ch # 32 THEN Words(Tail(cells), Append(cur, x.ch), acc)
       ELSE Words(Tail(cells), <<>>, IF cur = <<>> THEN acc ELSE Append(acc, cur))
RECURSIVE RowWords(_)
RowWords(rows) == IF rows = <<>> THEN <<>> ELSE Words(Head(rows), <<>>, <<>>) \o RowWords(Tail(rows))

\* the tokens found on the rows spell the input words in order; a word may be cut in
\* pieces only if it is longer than 32 characters
RECURSIVE TakePieces(_, _)
TakePieces(w, toks) ==
  \* number of leading tokens whose concatenation is w, 0 if none
  IF w = <<>> THEN 0
  ELSE IF toks = <<>> THEN -1000
  ELSE LET t == Head(toks) IN
       IF Len(t) <= Len(w) /\ SubSeq(w, 1, Len(t)) = t
          THEN (IF Len(t) = Len(w) THEN 1 ELSE 1 + TakePieces(SubSeq(w, Len(t) + 1, Len(w)), Tail(toks)))
          ELSE -1000
RECURSIVE Spells(_, _)
Spells(words, toks) ==
  IF words = <<>> THEN toks = <<>>
  ELSE IF toks = <<>> THEN FALSE
  ELSE LET w == Head(words) IN
       IF Head(toks) = w THEN Spells(Tail(words), Tail(toks))
       ELSE IF Len(w) > 32 THEN
            LET n == TakePieces(w, toks) IN n > 0 /\ Spells(Tail(words), SubSeq(toks, n + 1, Len(toks)))
       ELSE FALSE

EocEvents(ev) == SelectSeq(ev, LAMBDA x : x.e = "EOC" /\ RowsUsed(x.scr) # {})
LineWords(ln) == Len(ln.bytes)
LineStart(ln) == TcFrames(ln.tc)

\* rec.header_ok, rec.syntax_ok : first line is the Scenarist header; every other non-blank
\*    line is a timecode, a TAB and space-separated 4-hex-digit words
\* rec.lines : [tc, bytes (<<hi, lo>> per word), syms]
\* rec.caps  : input captions [start (BigNat microseconds), words]
\* rec.back  : per caption the words SCCReader reads back from the output
VerdictWriter(rec) ==
  LET st == Run(rec.lines)
      eocs == EocEvents(st.ev) IN
  IF ~rec.ok THEN "WriterRaised"
  ELSE IF ~rec.header_ok THEN "HeaderMissing"
  ELSE IF ~rec.syntax_ok THEN "LineNotTimecodeTabWords"
  ELSE IF \E l \in 1..Len(rec.lines) : \E w \in 1..Len(rec.lines[l].bytes) :
            ~OddParity(rec.lines[l].bytes[w][1]) \/ ~OddParity(rec.lines[l].bytes[w][2]) THEN "ByteWithEvenParity"
  ELSE IF \E l \in 1..Len(rec.lines) : \E s \in 1..Len(rec.lines[l].syms) :
            rec.lines[l].syms[s].k = "PAC" /\ rec.lines[l].syms[s].r \notin 1..15 THEN "RowOutside1To15"
  ELSE IF \E l \in 1..Len(rec.lines) : \E s \in 1..Len(rec.lines[l].syms) : rec.lines[l].syms[s].k = "BAD" THEN "UnknownCodeWord"
  \* hh:mm:ss:ff - minutes and seconds below 60, frames below 30 (a label such as 00:00:10:30 is not
  \* a timecode, whatever frame count it would add up to)
  ELSE IF \E l \in 1..Len(rec.lines) : rec.lines[l].tc[2] > 59 \/ rec.lines[l].tc[3] > 59 \/ rec.lines[l].tc[4] > 29
       THEN "TimecodeFieldOutOfRange"
  ELSE IF \E l \in 1..(Len(rec.lines) - 1) : LineStart(rec.lines[l]) > LineStart(rec.lines[l + 1]) THEN "TimecodesDecrease"
  ELSE IF \E l \in 1..(Len(rec.lines) - 1) : LineStart(rec.lines[l]) + LineWords(rec.lines[l]) > LineStart(rec.lines[l + 1])
       THEN "LineOverlapsTheNext"
  ELSE IF Len(eocs) # Len(rec.caps) THEN "NotOneDisplayedScreenPerCaption"
  ELSE IF \E k \in 1..Len(rec.caps) : Len(ScreenCaps(eocs[k].scr)) # 1 THEN "RowsNotAdjacent"
  ELSE IF \E k \in 1..Len(rec.caps) : \E j \in 1..Len(ScreenCaps(eocs[k].scr)[1].lines) :
            Len(ScreenCaps(eocs[k].scr)[1].lines[j]) > 32 THEN "RowLongerThan32Columns"
  ELSE IF \E k \in 1..Len(rec.caps) : ~Spells(rec.caps[k].words, RowWords(ScreenCaps(eocs[k].scr)[1].lines)) THEN "WordsChangedOrSplit"
  \* visible within three frames of its start: | frame(EOC) * 100100/3 us - start | <= 3 frames
  ELSE IF \E k \in 1..Len(rec.caps) :
            LET a == MulSmall(FromSmall(eocs[k].f), 100100)
                b == MulSmall(rec.caps[k].start, 3)
                d == IF Leq(a, b) THEN Sub(b, a) ELSE Sub(a, b) IN
            ~Leq(d, FromSmall(3 * 100100)) THEN "NotVisibleWithinThreeFramesOfStart"
  ELSE IF Len(rec.back) # Len(rec.caps) THEN "RereadCaptionCount"
  ELSE IF \E k \in 1..Len(rec.caps) : ~Spells(rec.caps[k].words, rec.back[k]) THEN "RereadWordsDiffer"
  ELSE "ok"
=============================================================================
