#!/bin/sh
# recheck.sh <seed name> <Cnn> [extra checks]   (re-verifies a kept seed from its own directory, keeps its history)
n=$1; p=$2; extra=${3:-}
cd /verif
T=/var/tmp/rs-$$; rm -rf $T; mkdir -p $T; cp seeded/$n/patch.diff $T/patch.diff; cp seeded/$n/demo.py $T/demo.py; cp seeded/$n/note.txt $T/note.txt 2>/dev/null
python3 -c "
import json; m=json.load(open('seeded/$n/meta.json')); json.dump(m.get('history',[]), open('$T/hist.json','w'))"
SEED_SRC=$T SEED_SUFFIX= tools/seedcheck.sh $p $n "$extra" 2>&1 | grep "rc=1\|detected\|PATCH\|suite" | cut -c1-170
python3 -c "
import json; m=json.load(open('seeded/$n/meta.json')); m['history']=json.load(open('$T/hist.json')); json.dump(m, open('seeded/$n/meta.json','w'), indent=1)"
rm -rf $T
