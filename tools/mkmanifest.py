#!/usr/bin/env python3
"""Regenerates /verif/MANIFEST.json from the table below (single source of truth)."""
import json
import os

ROOT = os.path.dirname(os.path.dirname(os.path.abspath(__file__)))

BASE = ("cd /repo && /venv/bin/python -m pytest -ra -q -p no:cacheprovider --timeout=900 "
        "--continue-on-collection-errors")

TRUST = ("TLC 1.8.0 + JVM; CPython; the harness renderers/projections under /verif/harness (tokenisers only: "
         "digits, code points, attribute strings); lxml/expat only for the yes/no well-formedness question")

CHECKS = {
    "C20": dict(
        technique="TLA+ spec Detect.tla: TLC enumerates all token strings (MC_Detect) and judges every recorded probe of the real detect_format / Reader.detect (Trace_Detect)",
        text="Exhaustive within the bound: TLC enumerates every token string up to length 4 (quick) / 6 (thorough) over an 11-token alphabet, proves the sniffer design model total and probe-order consistent, and every such string plus random strings, Latin-1 noise, all truncations and splices of writer outputs is run through the real code and each observation is accepted or rejected by TLC against the requirement operators. Beyond the bound the claim is sampling judged by the specification.",
        design="4 C20"),
}

CHECKS["C19"] = dict(
    technique="TLA+ spec Ops.tla: TLC steps the merge loop as a state machine against the closed form on all small lists (MC_Ops) and judges recorded executions of merge_concurrent_captions / adjust_caption_timing with exact BigNat arithmetic, and the paragraph counts of the two merging DFXP writers in every constructor spelling (Trace_Ops)",
    text="Exhaustive within the bound for merging (all caption lists up to length 5 quick / 9 thorough over two time keys: loop = closed form, idempotent, conserving; each list replayed on the real function for 1 and 3 languages) and sampled beyond it (lists up to 30, 1-3 languages); retiming is judged on a grid of skews and offsets around the drop boundary and on random dyadic (exact) and decimal (1 ns tolerance) skews, every observation accepted or rejected by TLC.",
    design="4 C19")

CHECKS["C18"] = dict(
    technique="TLA+ spec Geometry.tla: TLC enumerates every symbol string (MC_Geometry: DFA vs declarative grammar) and judges recorded ==/hash/parse/print/padding observations of pycaption.geometry (Trace_Geometry, exact BigNat rationals)",
    text="Exhaustive within the bound for the size grammar (every string up to length 4 quick / 5 thorough over 13 symbols replayed through Size.from_string, Point.from_xml_attribute and Padding.from_xml_attribute; length 6 model-checked) and for equality/hash (all same-class pairs of a grid exhaustive in units, None-ness and alignment values); printing, re-parsing, padding shorthand and receiver immutability are sampled; every observation is accepted or rejected by TLC.",
    design="4 C18")
CHECKS["C13"] = dict(
    technique="TLA+ spec Geometry.tla (section 5): TLC checks the design model of as_percentage_of / fit_to_screen / two-decimal printing against the requirement on the whole unit x value x video-size x option grid (MC_Rel) and judges the lengths actually written by DFXPWriter, SAMIWriter and WebVTTWriter at every layout level (Trace_Geometry)",
    text="Exhaustive over the MC_Rel grid (5 units x values x layout parts x 5 video-size combinations x relativize x fit x 3 writers, plus origins/extents around the 90/95 clamp), each case replayed at every level the writer emits; random values beyond. Written lengths are tokenised by the harness and judged by TLC with exact rationals (|printed - exact| <= 1/200). Two open known findings (DFXP language-level layouts) are re-validated against the requirement with exactly that deviation enabled.",
    design="4 C13")

CHECKS["C01"] = dict(
    technique="TLA+ spec TimeCodes.tla: Denote (exact BigNat reading of every timestamp grammar) is sanity-checked by TLC on all boundary spellings (MC_TimeCodes) and judges the start/end of every caption the five readers return on generated documents (Trace_TimeCodes)",
    text="Exhaustive over the boundary spelling sets of MC_TimeCodes (hours incl. 24/99/999, carries, missing/short/long fractions, frames, offset metrics, MicroDVD frames x fps, SAMI syncs), each spelling read by the real reader as begin, end and begin+dur; random multi-cue documents with spellings up to 1000 h and reader options beyond. Expected instants are computed by TLC in exact arithmetic from the spelling alone.",
    design="4 C01")
CHECKS["C02"] = dict(
    technique="TLA+ spec TimeCodes.tla (writer side): TLC checks a formatter design model and the SAMI sync state machine against the requirement (MC_Write, MC_SamiSync) and judges the timestamp fields tokenised from the output of seven writers by independent scanners (Trace_TimeCodes)",
    text="Exhaustive over the carry grid (every ms/s/min/h/24 h boundary +-1 us, integer and SCC-style thirds of a microsecond) for seven writers, and over all SAMI cue lists of <= 3 cues on a millisecond grid containing 0; random sets beyond (merge runs, WebVTT multi-layout splits, several languages). Written fields are read off by scanners that are not pycaption's and judged by TLC in exact arithmetic, cue structure included.",
    design="4 C02")

CHECKS["C03"] = dict(
    technique="TLA+ spec TextCodec.tla: TLC checks the escapers' design models against the reference decoders on all token strings (MC_TextCodec) and judges the payload that independent parsers (lxml strict, html.parser, WebVTT/SRT/MicroDVD block scanners) extract from the output of seven writers (Trace_TextCodec; WebVTT cue text decoded in TLA+)",
    text="Exhaustive within the bound: every text of up to 2 tokens over 3 lines (quick) / 3 tokens over 2 lines (thorough; 4-token lines model-checked) over a 26-token metacharacter alphabet, empty lines in both node encodings, written by seven writers and read back by parsers that are not pycaption's; plus fixed longer metacharacter sequences and random printable Unicode from all planes. Cue count and per-line text equality are decided by TLC.",
    design="4 C03")
CHECKS["C04"] = dict(
    technique="TLA+ spec TextCodec.tla (Display): TLC enumerates all sequences of authored units (MC_ReadText) and judges the text the five readers return for documents produced by the harness's own serialisers (Trace_TextCodec)",
    text="Exhaustive within the bound: every sequence of up to 2 (quick) / 3 (thorough) units over 34 authored units (characters, references in three spellings, literal entity-looking text, nested tagged spans, WebVTT voice/class/ruby/lang/timestamp/unknown tags, wraps, breaks) for each format the units exist in; random long sequences with all HTML named entities and supplementary-plane references beyond. Two open known findings are re-validated with exactly that deviation enabled.",
    design="4 C04")

CHECKS["C08"] = dict(
    technique="TLA+ spec Chain.tla: TLC proves the hop abstraction composed along every chain equals the truncation closed form and that a second pass is the identity (MC_Chain), and judges the (start, end, lines) observed after every hop of both passes of real write/read chains (Trace_Chain, exact BigNat times, text normalised in TLA+)",
    text="Exhaustive over all chains of length <= 2 (quick) / 3 (thorough) of the five formats on the residue-grid cue sets, two passes each; random chains up to length 6 over random sets (printable Unicode and metacharacter texts, up to 10 cues, 1-3 languages on DFXP/SAMI chains) beyond. Each hop uses pycaption's own writer and reader; the hop that breaks is named by the verdict.",
    design="4 C08")

CHECKS["C09"] = dict(
    technique="TLA+ spec Session.tla: TLC explores every short history of the object-graph design model (MC_Session: reader stash, shared default styles, open_span) against Isolation / OutputsAreFunctions and judges, step by step, recorded histories of real read/build/write/edit calls on shared and fresh objects (Trace_Session); references come from a fresh interpreter per term under other hash seeds",
    text="Exhaustive over all histories of <= 3 (quick) / 4 (thorough) operations of the design model, each replayed on real objects under five casts (readers, documents, API-built sets incl. an unclosed span and a px layout that makes writers raise, writers); random histories of 12-20 steps over 14 documents, 5 built sets and 8 writers x option sets beyond. After every step TLC compares the digest of every live set (input unchanged, also when the writer raises) and of every output (byte-identical to the pristine process) with the specification's state.",
    design="4 C09")
CHECKS["C10"] = dict(
    technique="TLA+ spec Session.tla (same machinery as C09, read/edit clauses): MC_Session design model checked by TLC; recorded histories judged step by step by Trace_Session against dumps computed in pristine interpreters under other hash seeds",
    text="Exhaustive over all histories of <= 3 (quick) / 4 (thorough) operations of the design model under five casts, random 12-20 step histories beyond (reader objects reused and fresh, 14 documents of six formats incl. 4-language SAMI, edits add_style / caption time / node text / caption style / retime). Every set returned by a read must equal the dump of the same term in a fresh interpreter; every edit must change only its own set.",
    design="4 C10")

CHECKS["C11"] = dict(
    technique="TLA+ spec MarkupWriter.tla: TLC checks the writers' span-reconstruction design models (single open_span flag) against the span requirement on every balanced flat node stream (MC_Markup), checks the DFXP style-table write order against 'every reference to a defined style survives' on all acyclic reference graphs over three styles, emitting each for replay (MC_Styles, the as-found id order refuted), and judges the token streams that independent parsers extract from real DFXP / SAMI / WebVTT output and the node lists pycaption's readers return (Trace_Markup)",
    text="Exhaustive over all balanced flat node streams of length <= 5 (quick) / 7 (thorough) through seven routes (DFXP, SAMI, WebVTT, legacy and single-position DFXP, DFXP->SAMI, SAMI->DFXP); random streams of 5-30 nodes beyond; plus balance of every caption the six readers return on the corpus. Per visible character the (italic, bold, underline) flags and the nesting of the emitted tags are computed and compared by TLC.",
    design="4 C11")

CHECKS["C07"] = dict(
    technique="TLA+ spec DfxpDoc.tla: TLC checks the region-table design model (unique layouts, three-level fallback, cleanup) against the document requirement on all 5^5 layout assignments (MC_DfxpDoc) and judges the structure projected from strictly parsed output of the three DFXP writers (Trace_DfxpDoc)",
    text="Exhaustive over the 3125 layout assignments (set / language / two captions / styled span over {none, A, B, default-equal, webvtt-only}) and over 11 string positions x 8 metacharacter classes, for the three DFXP writers; sets returned by all six readers on the corpus and random API-built sets with printable-Unicode strings under random options and force values beyond. Well-formedness is asked of expat and lxml (no recovery); ids, references, divs and paragraphs are judged by TLC.",
    design="4 C07")

CHECKS["C12"] = dict(
    technique="TLA+ spec Positioning.tla (on Geometry.tla): TLC checks the composition of the writer's region lookup and the reader's region resolution on all layout-name assignments (MC_Positioning, on DfxpDoc.tla), steps the WebVTT writer's grouping loop as a state machine against 'one cue per run of equal layouts' on every list of <= 4 node layouts, each emitted for replay (MC_Groups, the as-found loop refuted), and judges the effective layout per visible character after a real DFXPWriter -> DFXPReader round trip and the cue settings tokenised from WebVTTWriter output (Trace_Positioning, exact rationals)",
    text="Exhaustive over 1250 layout-name assignments (set / language / caption / node, plain or styled) and over a grid exhaustive in None-ness of the four layout parts, the 23 alignment pairs and padding values at four attachment levels; WebVTT align / position / line / size arithmetic on the same grid, multi-layout captions (1-3 cues) and verbatim raw cue settings; random two-decimal values beyond. One open known finding (plain TEXT node layouts) is re-validated with exactly that deviation enabled.",
    design="4 C12")

CHECKS["C14"] = dict(
    technique="TLA+ spec Langs.tla: TLC checks the SAMI writer's sync-placement design model (primary appends, secondary find / insert-after-earlier / insert-before-later) against SortedBody and Faithful on every small multi-language set (MC_Langs) and judges independently scanned SAMI / DFXP output, read-back sets, language options and DFXP xml:lang fallback (Trace_Langs)",
    text="Exhaustive over all 2-language sets with <= 2 cues per language on a 4-point grid (quick) / a 20 000-case sample of the 3-language space on a 5-point grid (thorough; the design model is checked on all 475 000), empty first language included; every set written by SAMIWriter and DFXPWriter, scanned independently and read back; language options on a sample; 48 DFXP documents with xml:lang on div / tt / absent under two configured defaults in child processes; SAMI reading with languages declared by class or lang attribute; random 1-4 language sets beyond. Two open known findings (SAMI lang attribute truncation, prefix-matching selector).",
    design="4 C14")

CHECKS["C05"] = dict(
    technique="TLA+ spec Scc608.tla: a reference CEA-608 decoder (two 15x32 memories, cursor, pen, extended-replaces-stand-in, backspace, mid-row cell, End-Of-Caption swap) model-checked on all raw command sequences (MC_Scc608) and on structured caption loads (Gen_Scc); every recorded SCCReader result is judged by TLC against the reference run on the abstract program (Trace_Scc)",
    text="Exhaustive within the bound: all raw command sequences to depth 4 (quick) / 5 (thorough) on the reference (sanity), all 960 cursor addresses, all 176 character codes in first/middle/last position, all 5600 structured caption loads in both doubling modes; random programs of 1-3 captions x 1-4 rows beyond. Per caption TLC compares lines (mid-row cell = optional space), italic flag per character, balance and the (row, column) -> percentage position. One open known finding (position tracker surviving End-Of-Caption) is re-validated with exactly that deviation enabled.",
    design="4 C05")

CHECKS["C06"] = dict(
    technique="TLA+ spec Scc608.tla (timing part): TLC checks the design model of SCCReader's pop-on timing (queue, batch rule with the five-frame comparison, four-second default) against the requirement on every event sequence of <= 3 captions (MC_SccTiming) and judges the start/end of every caption SCCReader returns against the frame of the End-Of-Caption / Erase word computed from the abstract program in exact arithmetic (Trace_Scc)",
    text="Exhaustive over all event sequences of <= 3 captions with gaps 0..8 / 40 frames and erases after 30..32 frames or none (design model), and over a replay grid 1-3 captions x erase inline / separate / absent x gap 0-8 frames x drop / non-drop x single / doubled x offset 0-2 s plus flash captions; random programs up to 23:59:59:29 with random offsets beyond. Exact arithmetic in thirds of a microsecond (BigNat), 2 ns tolerance for the reader's floats; the timing error is demanded exactly when a displayed duration is below 50 ms.",
    design="4 C06")

CHECKS["C15"] = dict(
    technique="TLA+ spec SccText.tla: the rows a stream transmits are computed by TLC from the abstract program (SentRows); MC_LineLen checks the design model of the per-start-time length scan against 'raises iff a long line exists and names them all'; recorded SCCReader outcomes (exception and named lines, or returned line lengths) are judged by Trace_SccText",
    text="Exhaustive over all caption lists of <= 4 captions over two start keys x {short, long} for the scan's design model, and over every combination of 1-3 rows with lengths from {5, 31, 32, 33, 40} in every order for pop-on buffers (non-adjacent rows = captions sharing a start, adjacent rows = lines of one caption, one or two buffers), roll-up and paint-on streams; random streams with rows of 0-40 characters in the three modes beyond.",
    design="4 C15")

CHECKS["C16"] = dict(
    technique="TLA+ spec SccText.tla (SentRows, VerdictRoll) and the design model MC_Roll of SCCReader's roll-up / paint-on branch: TLC checks conservation, no empty caption and continuity on all event sequences, and judges the captions SCCReader returns for generated roll-up / paint-on streams against the rows computed from the abstract program (Trace_SccText)",
    text="Exhaustive over all event sequences of <= 8 (quick) / 10 (thorough) events over {roll-up command, paint-on command, carriage return, row text} for the design model, and over a replay grid depth 2-4 x base row x 1-4 rows x single/doubled x drop/non-drop x repeated mode command, paint-on on adjacent and non-adjacent rows; random streams of 1-8 rows with specials, extended characters, backspaces, mid-row codes and mode switches beyond.",
    design="4 C16")

CHECKS["C17"] = dict(
    technique="TLA+ spec SccWriter.tla on the reference decoder Scc608.tla: TLC checks the schedule design model (pre-roll, clear-screen suppression) against the timing requirement (MC_SccWriter) and judges SCCWriter's actual output - scanned into lines, bytes and decoder symbols by the harness's own SCC scanner and decoded by the TLA+ reference decoder - plus SCCReader's re-reading (Trace_SccWriter)",
    text="Exhaustive over 1-3 captions x loads {5,20,60} x slacks for the schedule design model, and over a replay grid 1-3 captions x line lengths {1,31,32,33,64,80} x word shapes (short, 32- and 40-character words, hyphenated) x spacing {just feasible, +1 frame, sparse} x first start {just feasible, late}; random texts over the basic character table (1-4 lines of 1-80 characters, words up to 40) beyond. Header, line syntax, odd parity of every byte, rows 1-15, rows of at most 32 columns broken only at spaces, no overlapping lines, End-Of-Caption within three frames of the start and identical words on re-reading are decided by TLC.",
    design="4 C17")

NOT_YET = {}


def main():
    props = [json.loads(l) for l in open(os.path.join(ROOT, "properties.jsonl")) if l.strip()]
    checks = []
    na = []
    for p in props:
        pid = p["id"]
        if pid in CHECKS:
            c = CHECKS[pid]
            checks.append({
                "property_id": pid,
                "quick_cmd": "./check %s --tier quick" % pid,
                "thorough_cmd": "./check %s --tier thorough" % pid,
                "evidence_file": "/verif/evidence/%s.json" % pid,
                "replay_cmd_template": "./check %s --replay {path}" % pid,
                "engine": "tla-conformance",
                "level_claimed": {"category": "model_checking", "text": c["text"],
                                  "design_ref": "DESIGN.md section " + c["design"]},
                "level_note": c.get("note", TRUST),
                "technique": c["technique"],
            })
        else:
            na.append({"property_id": pid,
                       "reason": NOT_YET.get(pid, "check not built yet in this round; planned per DESIGN.md section 4")})
    m = {
        "version": 1,
        "setup_cmd": "./setup.sh",
        "hooks": {
            "guard": "PYCAPTION_VERIF",
            "enable": "pure Python, nothing to build: with PYCAPTION_VERIF=1 in the environment when pycaption.scc is imported, "
                      "SCCReader appends one record per consumed line / word / end of read() to pycaption.scc._VERIF_LOG "
                      "(used only by the extension check ./check X01, which sets the variable itself; the twenty property "
                      "checks observe pycaption through its public API and run with the guard off)",
            "baseline_off_cmd": BASE,
            "source_commits": ["60aff6b"],
            "add_only": True,
        },
        "engines": [{
            "name": "tla-conformance",
            "path": "/verif/check",
            "serves_properties": [c["property_id"] for c in checks],
            "kind_free_text": "explicit TLA+ specifications under /verif/spec checked with TLC; TLC-enumerated behaviours replayed into pycaption and recorded executions of pycaption judged by TLC trace specifications",
        }],
        "checks": checks,
        "notes": "Verdicts come only from requirement-level TLA+ operators evaluated by TLC (Trace_* specs). known_findings.json lists genuine defects (open/fixed). Exit 2 = machinery failure.",
        "not_applicable": na,
    }
    with open(os.path.join(ROOT, "MANIFEST.json"), "w") as f:
        json.dump(m, f, indent=1)
    print("MANIFEST.json: %d checks, %d not_applicable" % (len(checks), len(na)))


if __name__ == "__main__":
    main()
