#!/venv/bin/python
"""tools/sccshow.py <replay.json | input id via groupfail> : print program and observed captions"""
import json, sys, warnings
warnings.filterwarnings("ignore")
sys.path.insert(0, "/verif"); import os; sys.path.insert(0, os.environ.get("VERIF_REPO", "/repo"))
from harness import sccgen
import pycaption
d = json.load(open(sys.argv[1]))
inp = d["input"] if "input" in d else d
text, _ = sccgen.render_program(inp["lines"], inp["doubled"])
for ln in inp["lines"]:
    print(ln["tc"], " ".join((s["k"] + ":" + ",".join(str(v) if not (k in ("a","b","x") and v) else chr(v) for k, v in s.items() if k != "k")) for s in ln["syms"]))
print(text)
try:
    cs = pycaption.SCCReader().read(text, **inp.get("kw", {}))
    for c in cs.get_captions("en-US"):
        print(c.start, c.end, c.layout_info.origin if c.layout_info else None, c.nodes)
except Exception as e:
    print("ERR", type(e).__name__, e)
