#!/venv/bin/python
"""tools/groupfail.py Cnn [tier]  - run the check pipeline and group all rejections by signature."""
import collections, importlib, json, os, sys, warnings
warnings.filterwarnings("ignore")
ROOT = os.path.dirname(os.path.dirname(os.path.abspath(__file__)))
os.chdir(ROOT); sys.path.insert(0, ROOT); sys.path.insert(0, os.environ.get("VERIF_REPO", "/repo"))
os.environ.setdefault("PYTHONWARNINGS", "ignore")
from harness import engine, tlc
mod = importlib.import_module("harness." + sys.argv[1].lower())
tier = sys.argv[2] if len(sys.argv) > 2 else "quick"
ctx = engine.Ctx(mod.PID, tier, int(os.environ.get("VERIF_SEED", "0")))
if hasattr(mod, "model_runs"):
    mod.model_runs(ctx)
ins = mod.inputs(ctx)
for n, i in enumerate(ins):
    i.setdefault("id", "i%d" % n)
recs = engine.execute_all(mod, ins)
crash = [r for r in recs if "_crash" in r]
if crash:
    print(crash[0]["_crash"]); sys.exit(2)
by = {i["id"]: i for i in ins}; rb = {r["id"]: r for r in recs}
groups = {}
for r in recs:
    groups.setdefault(r.pop("_trace", mod.TRACE), []).append(r)
cnt = collections.Counter(); ex = {}
for tr, rs in groups.items():
    rj, st = tlc.judge(tr, rs)
    for rid, cl in rj:
        sig = json.dumps(mod.signature(by[rid], rb[rid], cl), sort_keys=True)
        cnt[sig] += 1
        ex.setdefault(sig, rid)
print("records", len(recs), "rejected", sum(cnt.values()))
for s, n in sorted(cnt.items()):
    print(n, s)
    if len(sys.argv) > 3:
        print("   input:", json.dumps(by[ex[s]])[:int(sys.argv[3])])
        print("   record:", json.dumps(rb[ex[s]])[:int(sys.argv[3])])
