#!/usr/bin/env python3
"""tools/coverage.py [Cnn ...]  - self-measurement: run the quick checks with VERIF_COV=1 and report which
executable lines of /repo/pycaption no check input reaches (blind spots of the input generators).
Not a manifest command; writes nothing but build/cov-*.json."""
import ast, json, os, subprocess, sys
ROOT = os.path.dirname(os.path.dirname(os.path.abspath(__file__)))
REPO = os.environ.get("VERIF_REPO", "/repo")
pids = sys.argv[1:] or ["C%02d" % k for k in range(1, 21)]
if not os.environ.get("COV_REUSE"):
    for p in pids:
        r = subprocess.run([os.path.join(ROOT, "check"), p], env=dict(os.environ, VERIF_COV="1"),
                           capture_output=True, text=True, cwd=ROOT)
        print(p, "rc", r.returncode, r.stdout.strip().splitlines()[-1][:150] if r.stdout.strip() else r.stderr[-300:])
hit = {}
for p in ["C%02d" % k for k in range(1, 21)]:
    fn = os.path.join(ROOT, "build", "cov-%s.json" % p)
    if os.path.exists(fn):
        for f, n in json.load(open(fn)):
            hit.setdefault(f, {}).setdefault(n, set()).add(p)


def executable_lines(path):
    src = open(path).read()
    tree = ast.parse(src)
    lines = set()
    for node in ast.walk(tree):
        if isinstance(node, ast.stmt) and not isinstance(node, (ast.FunctionDef, ast.ClassDef, ast.Import, ast.ImportFrom)):
            if isinstance(node, ast.Expr) and isinstance(node.value, ast.Constant) and isinstance(node.value.value, str):
                continue
            lines.add(node.lineno)
    return lines, src.splitlines()


for dirpath, _, files in os.walk(os.path.join(REPO, "pycaption")):
    for fn in sorted(files):
        if not fn.endswith(".py"):
            continue
        path = os.path.join(dirpath, fn)
        rel = os.path.relpath(path, REPO)
        ex, src = executable_lines(path)
        h = hit.get(rel, {})
        # module-level statements run at import, before tracing starts: count only lines inside functions
        tree = ast.parse("\n".join(src))
        infunc = set()
        for node in ast.walk(tree):
            if isinstance(node, (ast.FunctionDef, ast.AsyncFunctionDef)):
                for sub in ast.walk(node):
                    if hasattr(sub, "lineno"):
                        infunc.add(sub.lineno)
        ex &= infunc
        miss = sorted(ex - set(h))
        print("== %s: %d/%d function lines reached" % (rel, len(ex) - len(miss), len(ex)))
        for n in miss:
            print("   %4d  %s" % (n, src[n - 1].rstrip()[:110]))
