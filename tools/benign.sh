#!/bin/sh
# tools/benign.sh [diff ...]  - false-alarm measurement: every property-preserving change under /verif/benign
# (written by sub-agents that were asked to KEEP all twenty properties) is applied to a scratch copy of /repo
# and all quick checks are run against it from a scratch copy of /verif (so that build/ and evidence/ of the
# working checkout are left alone).  Any rc != 0 is printed and has to be triaged by hand.
set -u
V=/var/tmp/verif-benign-$$; rm -rf "$V"; mkdir -p "$V"
(cd /verif && tar --exclude=build --exclude=replays --exclude=.git -cf - .) | tar -xf - -C "$V"
DIFFS=${*:-$(ls /verif/benign/*.diff)}
for d in $DIFFS; do
  D=$(readlink -f "$d")
  S=/var/tmp/verif-benign-repo-$$; rm -rf "$S"
  # a detached worktree of HEAD, so that a change written against an older commit can be merged (3-way)
  git -C /repo worktree add -q --detach "$S" HEAD
  if ! (cd "$S" && git apply "$D" 2>/dev/null) && ! (cd "$S" && git apply --3way "$D" >/dev/null 2>&1 && ! git diff --name-only --diff-filter=U | grep -q .); then
    # does not merge: apply it to the commit it was written against; defects repaired since then are
    # reported again on such a copy, which says nothing about the change
    git -C /repo worktree remove --force "$S"; mkdir -p "$S"; (cd /repo && git archive cce84f1) | tar -x -C "$S"
    (cd "$S" && git init -q . 2>/dev/null && git apply "$D") || { echo "$d PATCH-FAILED"; rm -rf "$S"; continue; }
    echo "   (OLD-BASE: $d applied to cce84f1, not to HEAD)"
  fi
  T=$(cd "$S" && PYTHONPATH="$S" /venv/bin/python -m pytest -q -p no:cacheprovider --timeout=900 --continue-on-collection-errors 2>&1 | tail -1)
  echo "== $(basename $d) suite: $T"
  for c in C01 C02 C03 C04 C05 C06 C07 C08 C09 C10 C11 C12 C13 C14 C15 C16 C17 C18 C19 C20; do
    out=$(cd "$V" && VERIF_REPO="$S" ./check "$c" --tier quick 2>&1); rc=$?
    if [ $rc -ne 0 ]; then
      echo "   $c rc=$rc $(echo "$out" | tail -1 | cut -c1-200)"
      echo "$out" | grep -m3 "VIOLATION\|MACHINERY" | cut -c1-400 | sed 's/^/      /'
    fi
  done
  git -C /repo worktree remove --force "$S" 2>/dev/null || rm -rf "$S"
done
git -C /repo worktree prune
rm -rf "$V"
echo DONE
