#!/usr/bin/env python3
import glob, json, sys
import jsonschema
ok = True
m = json.load(open('/verif/MANIFEST.json'))
jsonschema.validate(m, json.load(open('/root/.vp/MANIFEST.schema.json')))
sch = json.load(open('/root/.vp/EVIDENCE.schema.json'))
for c in m['checks']:
    p = c['evidence_file']
    try:
        jsonschema.validate(json.load(open(p)), sch)
    except Exception as e:
        ok = False
        print('BAD', p, str(e)[:300])
print('manifest ok; evidence', 'ok' if ok else 'NOT ok')
sys.exit(0 if ok else 1)
