#!/bin/sh
# tools/mutant.sh <patch.diff> "<C01 C02 ...>" [tier]
# Applies a patch to a scratch copy of /repo (outside /repo and /verif), runs the pinned suite on it
# and then the named checks with VERIF_REPO pointing at the copy; removes the copy.
set -u
PATCH=$(readlink -f "$1"); CHECKS=$2; TIER=${3:-quick}
S=/var/tmp/verif-scratch-$$
rm -rf "$S"; mkdir -p "$S"
(cd /repo && git archive HEAD) | tar -x -C "$S"
cd "$S" && git init -q . 2>/dev/null
if ! git apply "$PATCH" 2>/dev/null && ! patch -p1 -s < "$PATCH"; then echo "PATCH-FAILED"; rm -rf "$S"; exit 3; fi
T=$(/venv/bin/python -m pytest -q -p no:cacheprovider --timeout=900 --continue-on-collection-errors 2>&1 | tail -1)
echo "suite: $T"
cd /verif
for c in $CHECKS; do
  out=$(VERIF_REPO="$S" ./check "$c" --tier "$TIER" 2>&1); rc=$?
  echo "$c rc=$rc $(echo "$out" | grep -c VIOLATION) violation lines; $(echo "$out" | tail -1)"
  echo "$out" | grep -m2 VIOLATION | cut -c1-300
done
rm -rf "$S"
