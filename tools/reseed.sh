#!/bin/sh
# tools/reseed.sh [name-pattern]  - regression over every kept seeded change: apply it to a scratch copy of the base
# it was written against, run the quick check(s) that caught it (meta.json results with rc=1), report any that no
# longer does.  Nothing is written under /verif/seeded.
# the checks run from a scratch copy of /verif, so that build/, replays/ and evidence/ of the checkout stay as they are
V=/var/tmp/verif-reseed-$$; rm -rf "$V"; mkdir -p "$V"
(cd /verif && tar --exclude=build --exclude=replays --exclude=.git --exclude=seeded --exclude=benign -cf - .) | tar -xf - -C "$V"
cd /verif
for d in seeded/${1:-*}/; do
  name=$(basename $d)
  checks=$(python3 -c "
import json,sys
m=json.load(open('$d/meta.json'))
print(' '.join(sorted({r['check'] for r in m['results'] if r['rc']==1})))")
  [ -z "$checks" ] && { echo "$name: no catching check recorded"; continue; }
  S=/var/tmp/reseed-$$; rm -rf $S; mkdir -p $S
  ok=0
  for base in HEAD cce84f1; do
    rm -rf $S; mkdir -p $S; (cd /repo && git archive $base) | tar -x -C $S
    if (cd $S && git init -q . 2>/dev/null && git apply $OLDPWD/$d/patch.diff 2>/dev/null); then ok=1; break; fi
  done
  [ $ok -eq 0 ] && { echo "$name: PATCH-FAILED"; continue; }
  res=""
  for c in $checks; do
    out=$(cd "$V" && VERIF_REPO=$S ./check $c 2>&1); rc=$?
    res="$res $c:rc=$rc"
  done
  case "$res" in *rc=1*) echo "$name:$res";; *) echo "$name:$res  <-- NO LONGER DETECTED";; esac
  rm -rf $S
done
rm -rf "$V"
echo DONE
