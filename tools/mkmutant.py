#!/usr/bin/env python3
"""tools/mkmutant.py name file 'old' 'new'  -> mutants/name.diff (unified diff against /repo HEAD)"""
import difflib, sys
name, path, old, new = sys.argv[1:5]
src = open("/repo/" + path).read()
old = old.encode().decode("unicode_escape"); new = new.encode().decode("unicode_escape")
assert src.count(old) >= 1, "pattern not found"
dst = src.replace(old, new, 1)
d = difflib.unified_diff(src.splitlines(True), dst.splitlines(True), "a/" + path, "b/" + path)
open("/verif/mutants/%s.diff" % name, "w").write("".join(d))
print("wrote mutants/%s.diff" % name)
