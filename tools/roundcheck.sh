#!/bin/sh
# tools/roundcheck.sh <worktree-prefix e.g. /tmp/wt4-> <round tag e.g. r4> <Cnn> [extra checks]
# verifies the deliverables A, B, C of one sub-agent (seedcheck per letter) and prints one line per change
PFX=$1; TAG=$2; PID=$3; EXTRA=${4:-}
for X in A B C; do
  [ -f "$PFX$PID/_seeded/patch$X.diff" ] || continue
  out=$(SEED_BASE=${SEED_BASE:-HEAD} SEED_SRC=$PFX$PID/_seeded SEED_SUFFIX=$X /verif/tools/seedcheck.sh $PID $PID-$TAG$X "$EXTRA" 2>&1)
  suite=$(echo "$out" | grep -m1 "^suite:" | sed 's/ passed.*demo/ demo/')
  q=$(echo "$out" | grep -m1 "^$PID quick" | sed 's/ | .*//')
  t=$(echo "$out" | grep -m1 "^$PID thorough" | sed 's/ | .*//')
  first=$(echo "$out" | grep -m1 "VIOLATION" | sed 's/.*clause=//' | cut -c1-110)
  ex=$(echo "$out" | grep "^C[0-9]* quick rc=1" | grep -v "^$PID " | cut -d' ' -f1 | tr '\n' ' ')
  echo "$PID-$TAG$X | $suite | $q $t | siblings caught: ${ex:-none} | $first"
done
