#!/usr/bin/env python3
import json, sys
p = "/verif/seeded/%s/meta.json" % sys.argv[1]
d = json.load(open(p)); d.setdefault("history", []).append(sys.argv[2]); json.dump(d, open(p, "w"), indent=1)
