#!/bin/sh
# tools/seedcheck.sh <Cnn> [name] [extra checks]  - verify a sub-agent's seeded change from /tmp/wt-Cnn/_seeded and keep it
# under /verif/seeded/<name>/ with meta.json: suite result, demo results, which checks caught it.
set -u
PID=$1; NAME=${2:-$PID}; EXTRA=${3:-}
# SEED_SRC / SEED_SUFFIX: round-2 agents deliver patchA.diff / demoA.py / noteA.txt in /tmp/wt2-Cnn/_seeded
SRC=${SEED_SRC:-/tmp/wt-$PID/_seeded}; SFX=${SEED_SUFFIX:-}
[ -f "$SRC/patch$SFX.diff" ] || { echo "no patch in $SRC"; exit 3; }
DST=/verif/seeded/$NAME; mkdir -p "$DST"
cp "$SRC/patch$SFX.diff" "$DST/patch.diff"; cp "$SRC/demo$SFX.py" "$DST/demo.py"; cp "$SRC/note$SFX.txt" "$DST/note.txt" 2>/dev/null
S=/var/tmp/verif-seed-$$; rm -rf "$S"; mkdir -p "$S/clean" "$S/mod"
# SEED_BASE: the commit the patch was written against (default HEAD); when it is older than HEAD the
# commits in between (verification hooks) are replayed on top of the patched copy
BASE=${SEED_BASE:-HEAD}
(cd /repo && git archive HEAD) | tar -x -C "$S/clean"; (cd /repo && git archive $BASE) | tar -x -C "$S/mod"
cd "$S/mod" && git init -q . 2>/dev/null
if ! git apply "$DST/patch.diff" 2>/dev/null && ! patch -p1 -s --forward < "$DST/patch.diff"; then echo "PATCH-FAILED"; rm -rf "$S"; exit 3; fi
if [ "$BASE" != "HEAD" ]; then (cd /repo && git diff $BASE HEAD) > "$S/later.diff"; if ! patch -p1 -s --forward --dry-run < "$S/later.diff" >/dev/null 2>&1; then echo "note: later commits (hooks) not replayed on the patched copy"; else patch -p1 -s --forward < "$S/later.diff"; fi; fi
SUITE=$(cd "$S/mod" && PYTHONPATH="$S/mod" /venv/bin/python -m pytest -q -p no:cacheprovider --timeout=900 --continue-on-collection-errors 2>&1 | tail -1)
(cd "$S/clean" && PYTHONPATH="$S/clean" PYTHONWARNINGS=ignore /venv/bin/python "$DST/demo.py" >/dev/null 2>&1); DC=$?
(cd "$S/mod" && PYTHONPATH="$S/mod" PYTHONWARNINGS=ignore /venv/bin/python "$DST/demo.py" >/dev/null 2>&1); DM=$?
echo "suite: $SUITE | demo clean rc=$DC modified rc=$DM"
cd /verif
RES=""
for c in $PID $EXTRA; do
  for tier in quick thorough; do
    out=$(VERIF_REPO="$S/mod" timeout 3000 ./check "$c" --tier $tier 2>&1); rc=$?
    line=$(echo "$out" | tail -1)
    first=$(echo "$out" | grep -m1 VIOLATION | sed 's/replay=[^ ]* //' | cut -c1-260)
    echo "$c $tier rc=$rc | $line"
    [ -n "$first" ] && echo "   $first"
    RES="$RES{\"check\":\"$c\",\"tier\":\"$tier\",\"rc\":$rc,\"first\":$(printf '%s' "$first" | python3 -c 'import json,sys; print(json.dumps(sys.stdin.read()))')},"
    [ $rc -eq 1 ] && break
  done
done
python3 - "$DST" "$PID" "$SUITE" "$DC" "$DM" "[${RES%,}]" <<'PY'
import json, sys
dst, pid, suite, dc, dm, res = sys.argv[1:7]
note = ""
try: note = open(dst + "/note.txt").read()
except Exception: pass
meta = {"property": pid, "needs_to_manifest": note.strip(), "suite_with_change": suite,
        "demo_rc_unmodified": int(dc), "demo_rc_modified": int(dm),
        "ran": "tools/seedcheck.sh: patch applied to a scratch copy of /repo HEAD (git archive), pinned suite, demo.py on both copies, ./check with VERIF_REPO=<copy>",
        "results": json.loads(res),
        "detected": any(r["rc"] == 1 for r in json.loads(res))}
json.dump(meta, open(dst + "/meta.json", "w"), indent=1)
print("detected:", meta["detected"])
PY
rm -rf "$S" /verif/replays/$PID
