#!/venv/bin/python
"""tools/sccexpect.py replay.json  -> expected captions per the TLA+ reference decoder"""
import json, sys, os, warnings
warnings.filterwarnings("ignore")
sys.path.insert(0, "/verif"); sys.path.insert(0, "/repo")
from harness import tlc
d = json.load(open(sys.argv[1]))
rec = d["record"]; rec["id"] = "x"
p = "/verif/build/dbg.ndjson"
open(p, "w").write(json.dumps(rec) + "\n")
r = tlc.run("Debug_Scc", env={"TRACE_FILE": p}, workers=1)
for s in r.strings:
    if s.startswith("EXPECT "):
        e = json.loads(s[7:])
        for c in e["caps"]:
            print("row", c["row"], "col", c["col"], ["".join((chr(x[0]) if x[0] > 0 else ("~" if x[0] < 0 else "_")) + ("*" if x[1] else "") for x in ln) for ln in c["lines"]])
        print("screens", e["screens"])
for c in rec["obs"]["caps"]:
    print("obs x32", c["x32"], "y15", c["y15"], [("".join(map(chr, n["s"])) if n["t"] == "T" else (n["t"] + ("+" if n.get("on") else "-") if n["t"] == "S" else "BR")) for n in c["nodes"]])
