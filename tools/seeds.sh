#!/bin/sh
# tools/seeds.sh "C01 C02 ..." "0 1 2"  - run quick checks under several seeds, print non-zero exits
cd "$(dirname "$0")/.."
for p in $1; do for s in $2; do
  out=$(VERIF_SEED=$s ./check $p --tier quick 2>&1); rc=$?
  echo "$p seed=$s rc=$rc $(echo "$out" | tail -1)"
  [ $rc -ne 0 ] && echo "$out" | grep -m3 -e VIOLATION -e MACHINERY
done; done
