"""C13  Absolute sizes are relativized exactly or refused; fit-to-screen stays safe."""
import random
import re
from fractions import Fraction

from . import tlc
from .num import limbs

PID = "C13"
TRACE = "Trace_Geometry"
RULE = ("(G) every case of MC_Rel (5 units x value grid x which layout parts x 5 video-size combinations x relativize "
        "x fit x writer, and origins/extents around the 90/95 clamp) replayed at every level the writer emits "
        "(DFXP: language, caption, styled span; SAMI: set, language; WebVTT: language, caption, node); (T) random "
        "values with up to two decimals, random video sizes, mixed units per part. non-trivial = a non-percentage "
        "unit is involved or fit-to-screen changes / creates the extent; distinct by input")
ASSUMPTIONS = ["printed values are compared with the exact rational by the relation |p - exact| <= 1/200 (ties either way)",
               "a cell length with no video size may be refused or converted (the statement does not settle it)",
               "with relativize off only all-percentage layouts are judged (fit-to-screen); WebVTT must still never print an absolute length"]

LEVELS = {"DFXP": ["language", "caption", "node"], "SAMI": ["set", "language"],
          "WebVTT": ["language", "caption", "node"]}


def model_runs(ctx):
    res = tlc.run("MC_Rel", cfg="MC_Rel" if ctx.quick else "MC_RelFull")
    ctx.add_tlc(res, "design model of as_percentage_of / fit_to_screen / two-decimal printing meets the requirement on the whole case grid")
    ctx._cases = res.cases()
    ctx.extra["exhaustive"] = True
    ctx.extra["bound"] = "MC_Rel grid (%s)" % ("reduced" if ctx.quick else "full")


def _sz(v, u):
    f = Fraction(v)
    return {"cls": "size", "n": limbs(f.numerator), "d": limbs(f.denominator), "u": u}


NONE = {"cls": "none"}


def inputs(ctx):
    rng = random.Random(ctx.seed * 31337 + 13)
    ins = []
    n = 0
    for c in ctx._cases:
        for lv in LEVELS[c["writer"]]:
            ins.append({"id": "g%d" % n, "case": c, "level": lv})
            n += 1
            if c["writer"] == "SAMI" and lv == "set" and c["lay"]["p"]["cls"] != "none" and n % 3 == 0:
                # what SAMIReader leaves behind: the P rule's margins both in the layout and in the
                # style's own rules (as written, absolute)
                ins.append({"id": "g%d" % n, "case": c, "level": lv, "pm": True})
                n += 1
    units = ["px", "em", "%", "c", "pt"]
    # lengths whose percentage is, up to float noise or a few thousandths, a multiple of ten (printed
    # "30%", not "3%" or "30.0%"), for every unit and writer
    tens = [("2304/10", "pt", 1024, 576), ("432/10", "pt", 1024, 576), ("5978/10", "px", 854, 480), ("534/100", "em", 854, 480),
            ("3072/10", "px", 1024, 576), ("10004/1000", "%", 640, 360), ("69996/1000", "%", 640, 360), ("20003/1000", "%", 640, 360),
            ("192", "px", 640, 360), ("448", "px", 640, 360), ("3", "c", 640, 360), ("16", "c", 640, 360)]
    for val_, u, W, H in tens:
        for w in ("DFXP", "SAMI", "WebVTT"):
            for part in ("o", "e"):
                lay = {"cls": "layout",
                       "o": {"cls": "point", "x": _sz(val_ if part == "o" else "10", u if part == "o" else "%"), "y": _sz("10", "%")},
                       "e": {"cls": "stretch", "h": _sz(val_, u), "v": _sz("20", "%")} if part == "e" else NONE,
                       "p": NONE}
                c = {"lay": lay, "W": {"has": True, "v": W}, "H": {"has": True, "v": H}, "relativize": True, "fit": False, "writer": w}
                for lv in LEVELS[w]:
                    ins.append({"id": "t%d" % n, "case": c, "level": lv})
                    n += 1
                    if part == "o" and u != "%":
                        ins.append({"id": "t%d" % n, "case": c, "level": lv, "pre": w})
                        n += 1
    # one layout mixing units between its parts: a percentage origin with an absolute extent and the
    # other way round (SAMI sources: % positions, px / pt margins), under every option pair
    for ou, eu in (("%", "px"), ("%", "em"), ("%", "pt"), ("%", "c"), ("px", "%"), ("c", "%")):
        def v(u, pct, absolute):
            return _sz(pct if u == "%" else absolute, u)
        lay = {"cls": "layout", "o": {"cls": "point", "x": v(ou, "10", "64"), "y": v(ou, "20", "72")},
               "e": {"cls": "stretch", "h": v(eu, "40", "200" if eu != "c" else "12"), "v": v(eu, "30", "100" if eu != "c" else "5")}, "p": NONE}
        for w in ("WebVTT", "DFXP", "SAMI"):
            for rel in (False, True):
                for fit in (False, True):
                    for W, H in ((640, 360), (None, None)):
                        c = {"lay": lay, "W": {"has": W is not None, "v": W or 1}, "H": {"has": H is not None, "v": H or 1},
                             "relativize": rel, "fit": fit, "writer": w}
                        for lv in LEVELS[w][:2]:
                            ins.append({"id": "x%d" % n, "case": c, "level": lv})
                            n += 1
    for k in range(600 if ctx.quick else 20000):
        w = rng.choice(["DFXP", "SAMI", "WebVTT"])

        def val(u, lim):
            if u == "%":
                return "%d/100" % rng.randrange(0, lim * 100)
            return "%d/%d" % (rng.randrange(0, 20000), rng.choice([1, 10, 100]))
        u = rng.choice(units)
        mixed = rng.random() < 0.3
        pu = (lambda: rng.choice(units)) if mixed else (lambda: u)
        eu = rng.choice(units) if mixed and rng.random() < 0.5 else u
        has_o = rng.random() < 0.7
        has_e = rng.random() < 0.5
        has_p = rng.random() < 0.4 and w != "WebVTT"
        lay = {"cls": "layout",
               "o": {"cls": "point", "x": _sz(val(u, 90), u), "y": _sz(val(u, 95), u)} if has_o else NONE,
               "e": {"cls": "stretch", "h": _sz(val(eu, 100), eu), "v": _sz(val(eu, 100), eu)} if has_e else NONE,
               "p": {"cls": "padding", **{k2: _sz(val(x, 20), x) for k2, x in zip("base", [pu(), pu(), pu(), pu()])}} if has_p else NONE}
        W = rng.choice([None, 640, 1280, 1920, 720, 333])
        H = rng.choice([None, 360, 720, 1080, 480, 77])
        c = {"lay": lay, "W": {"has": W is not None, "v": W or 1}, "H": {"has": H is not None, "v": H or 1},
             "relativize": rng.random() < 0.8, "fit": rng.random() < 0.5, "writer": w}
        ins.append({"id": "r%d" % k, "case": c, "level": rng.choice(LEVELS[w])})
    return ins


def _size(a):
    from pycaption.geometry import Size, UnitEnum
    from .num import from_limbs
    return Size(float(Fraction(from_limbs(a["n"]), from_limbs(a["d"]))), UnitEnum(a["u"]))


def _layout(lay):
    from pycaption.geometry import Layout, Padding, Point, Stretch
    o = lay["o"]
    e = lay["e"]
    p = lay["p"]
    return Layout(
        origin=Point(_size(o["x"]), _size(o["y"])) if o["cls"] != "none" else None,
        extent=Stretch(_size(e["h"]), _size(e["v"])) if e["cls"] != "none" else None,
        padding=Padding(before=_size(p["b"]), after=_size(p["a"]), start=_size(p["s"]), end=_size(p["e"]))
        if p["cls"] != "none" else None)


_TOK = re.compile(r"^(\d+)(?:\.(\d+))?(px|em|%|c|pt)$")


def tok(s):
    m = _TOK.match(s)
    if not m:
        return {"cls": "tok", "ip": [], "fp": [], "pu": "", "plain": False, "raw": s}
    return {"cls": "tok", "ip": [int(c) for c in m.group(1)], "fp": [int(c) for c in (m.group(2) or "")],
            "pu": m.group(3), "plain": True}


def _none8():
    return {k: NONE for k in ("ox", "oy", "eh", "ev", "pb", "pa", "ps", "pe")}


TT = "{http://www.w3.org/ns/ttml}"
TTS = "{http://www.w3.org/ns/ttml#styling}"
XML = "{http://www.w3.org/XML/1998/namespace}"


def execute(inp):
    from lxml import etree
    from pycaption import Caption, CaptionList, CaptionNode, CaptionSet, DFXPWriter, SAMIWriter, WebVTTWriter
    c = inp["case"]
    lv = inp["level"]
    L = _layout(c["lay"])
    kw = {"relativize": c["relativize"], "fit_to_screen": c["fit"]}
    if c["W"]["has"]:
        kw["video_width"] = c["W"]["v"]
    if c["H"]["has"]:
        kw["video_height"] = c["H"]["v"]
    if lv == "node":
        if c["writer"] == "DFXP":
            nodes = [CaptionNode.create_style(True, {"italics": True}, layout_info=L),
                     CaptionNode.create_text("Hello", layout_info=L),
                     CaptionNode.create_style(False, {"italics": True}, layout_info=L)]
        else:
            nodes = [CaptionNode.create_text("Hello", layout_info=L)]
    else:
        nodes = [CaptionNode.create_text("Hello")]
    cap = Caption(1_000_000, 2_000_000, nodes, style={}, layout_info=L if lv == "caption" else None)
    cl = CaptionList([cap], layout_info=L if lv == "language" else None)
    styles = {"p": {"color": "white"}} if c["writer"] == "SAMI" else {}
    if inp.get("pm") and L.padding:
        for css, part in (("margin-top", L.padding.before), ("margin-right", L.padding.end), ("margin-bottom", L.padding.after),
                          ("margin-left", L.padding.start)):
            if part is not None:
                styles["p"][css] = str(part)
    cs = CaptionSet({"en-US": cl}, styles=styles, layout_info=L if lv == "set" else None)
    rec = {"k": "rel", "lay": c["lay"], "W": c["W"], "H": c["H"], "relativize": c["relativize"], "fit": c["fit"],
           "writer": c["writer"], "abs": False, "sees": {"eh": c["writer"] != "SAMI"}, "obs": _none8()}
    w = {"DFXP": DFXPWriter, "SAMI": SAMIWriter, "WebVTT": WebVTTWriter}[c["writer"]](**kw)
    if inp.get("pre"):
        # the very same set was first written by another writer for another video size: what that
        # writer worked out (on its own copy) has nothing to do with this conversion
        other = {"DFXP": SAMIWriter, "SAMI": WebVTTWriter, "WebVTT": DFXPWriter}[inp["pre"]]
        try:
            other(video_width=1280, video_height=960).write(cs)
        except Exception:
            pass
    try:
        out = w.write(cs)
    except Exception as e:
        rec["out"] = "raise:" + type(e).__name__
        return rec
    rec["out"] = "ok"
    obs = rec["obs"]
    if c["writer"] == "DFXP":
        root = etree.fromstring(out.encode("utf-8"))
        el = {"language": root.find(".//%sdiv" % TT), "caption": root.find(".//%sp" % TT),
              "node": root.find(".//%sspan" % TT)}[lv]
        rid = el.get("region") if el is not None else None
        reg = None
        for r in root.iter(TT + "region"):
            if r.get(XML + "id") == rid:
                reg = r
        if reg is not None:
            o = reg.get(TTS + "origin")
            e = reg.get(TTS + "extent")
            p = reg.get(TTS + "padding")
            if o:
                a = o.split(" ")
                obs["ox"], obs["oy"] = tok(a[0]), tok(a[1] if len(a) > 1 else "")
            if e:
                a = e.split(" ")
                obs["eh"], obs["ev"] = tok(a[0]), tok(a[1] if len(a) > 1 else "")
            if p:
                a = p.split(" ") + ["", "", "", ""]
                obs["pb"], obs["pe"], obs["pa"], obs["ps"] = tok(a[0]), tok(a[1]), tok(a[2]), tok(a[3])
    elif c["writer"] == "SAMI":
        sel = r"\n\s*p \{" if lv == "set" else r"\.en-US \{"
        m = re.search(sel + r"([^}]*)\}", out)
        if m:
            body = m.group(1)
            for css, part in (("margin-top", "pb"), ("margin-right", "pe"), ("margin-bottom", "pa"), ("margin-left", "ps")):
                mm = re.search(css + r":\s*([^;]*);", body)
                if mm:
                    obs[part] = tok(mm.group(1).strip())
    else:
        line = [l for l in out.splitlines() if "-->" in l][0]
        settings = line.split("-->", 1)[1].split()[1:]
        for s in settings:
            key, _, v = s.partition(":")
            if key == "position":
                obs["ox"] = tok(v)
            elif key == "line":
                obs["oy"] = tok(v)
            elif key == "size":
                obs["eh"] = tok(v)
            if re.search(r"\d(px|em|pt|c)$", v):
                rec["abs"] = True
    return rec


def _absolute(c):
    for part in ("o", "e", "p"):
        x = c["lay"][part]
        if x["cls"] != "none":
            for k, v in x.items():
                if k != "cls" and v["u"] != "%":
                    return True
    return False


def signature(inp, rec, clause):
    cl = clause.split(" ")[0]
    fam = "fit" if cl.startswith("Fit") else ("relativize" if cl in (
        "MissingDimensionNotRefused", "OriginXNotRelativized", "OriginYNotRelativized",
        "PaddingNotRelativized", "ExtentNotRelativized") else "other")
    return {"clause": cl, "writer": rec["writer"], "level": inp["level"], "family": fam}


def nontrivial(inp, rec):
    c = inp["case"]
    if _absolute(c) or (c["fit"] and c["lay"]["o"]["cls"] != "none"):
        return [inp["case"], inp["level"]]
    return None


def corrupt(inp, rec):
    import copy
    out = []
    if rec["out"] != "ok":
        return [dict(rec, out="raise:ValueError")]
    for part in ("ox", "eh", "pb"):
        t = rec["obs"][part]
        if t["cls"] != "none" and t["plain"] and t["pu"] == "%" and (rec["relativize"] or not _absolute(inp["case"])):
            c = copy.deepcopy(rec)
            d = c["obs"][part]["ip"]
            d[-1] = (d[-1] + 1) % 10
            if part == "eh" and rec["fit"] and inp["case"]["lay"]["o"]["cls"] != "none":
                # only constrained when the origin lies in the safe area
                continue
            out.append(c)
    return out
