"""C19  Timing adjustment and concurrent-caption merging keep all text in order."""
import random
from fractions import Fraction

from . import tlc
from .num import bigint, limbs, ratio

PID = "C19"
TRACE = "Trace_Ops"
RULE = ("merge: (G) every list of <= 5 (quick) / 9 (thorough) captions over two time keys enumerated by TLC "
        "(MC_Ops), replayed on 1 and 2 languages; (T) random lists up to 30 captions with runs of every length, "
        "captions containing their own BREAK nodes; adjust: grid of skews/offsets incl. everything-dropped and "
        "start-exactly-zero, random dyadic skews (exact) and decimal skews (1 ns tolerance); non-trivial = some run "
        "of length >= 2 (merge) or some caption dropped / kept at the boundary (adjust); distinct by input")
ASSUMPTIONS = ["captions are identified by the identity of their node objects",
               "non-dyadic skews are compared with a tolerance of one nanosecond (binary floating point)"]


def model_runs(ctx):
    res = tlc.run("MC_Ops", cfg="MC_Ops" if ctx.quick else "MC_Ops9")
    ctx.add_tlc(res, "merge loop (state machine) = closed form, idempotent, conserving, on all lists")
    ctx._cases = res.cases()
    ctx.extra["exhaustive"] = True
    ctx.extra["bound"] = "caption lists of length <= %d over 2 time keys" % (5 if ctx.quick else 9)


TIMES = {"A": (1_000_000, 2_000_000), "B": (1_000_000, 2_500_000), "C": (2_000_000, 2_500_000),
         "D": (0, 2_000_000),
         # equal to A when printed to the millisecond / a day later (equal on a clock face): other timespans
         "F": (1_000_400, 2_000_300), "G": (86_401_000_000, 86_402_000_000), "H": (1_000_000.5, 2_000_000)}


def inputs(ctx):
    rng = random.Random(ctx.seed * 104729 + 19)
    ins = []
    for k, c in enumerate(ctx._cases):
        keys = c["keys"]
        ins.append({"id": "gm%d" % k, "kind": "merge", "langs": [keys]})
        if keys:
            ins.append({"id": "gm2-%d" % k, "kind": "merge", "langs": [keys, list(reversed(keys)), []]})
            # captions whose own nodes begin or end with a line break: the separator is added all the same
            ins.append({"id": "gm3-%d" % k, "kind": "merge", "langs": [keys], "breaks": "edge"})
            ins.append({"id": "gm4-%d" % k, "kind": "merge", "langs": [keys], "breaks": "edge2"})
            # captions without visible text (blanks only, a style pair, a lone break) are captions too
            ins.append({"id": "gm5-%d" % k, "kind": "merge", "langs": [keys], "breaks": "blank"})
            # the second time key replaced by one that differs from the first only below the
            # millisecond, by half a microsecond, or by exactly a day
            if "B" in keys and k % 2 == 0:
                for sub in "FGH":
                    ins.append({"id": "gm6%s-%d" % (sub, k), "kind": "merge", "langs": [[sub if x == "B" else x for x in keys]]})
    for k in range(400 if ctx.quick else 80000):
        langs = []
        for _ in range(rng.randrange(1, 4)):
            n = rng.randrange(0, 31)
            ks = []
            while len(ks) < n:
                key = rng.choice("ABCD" if k % 4 else "ABCDFGH")
                ks += [key] * min(n - len(ks), rng.choice([1, 1, 1, 2, 3, 5]))
            langs.append(ks)
        ins.append({"id": "rm%d" % k, "kind": "merge", "langs": langs, "breaks": rng.choice([True, True, "edge", "edge2", "blank"])})
    # merge: runs whose captions differ in their own style, captions that share one node list (a
    # recurring "[music]" cue): merging looks at the timespans only and changes no caption it does not merge
    for k, c in enumerate(ctx._cases):
        keys = c["keys"]
        if len(keys) >= 2 and k % 2 == 0:
            ins.append({"id": "gm7-%d" % k, "kind": "merge", "langs": [keys], "breaks": "styles"})
            ins.append({"id": "gm8-%d" % k, "kind": "merge", "langs": [keys, list(reversed(keys))], "breaks": "shared"})
    # the two writers that merge, constructed in every spelling their signatures allow
    for k, c in enumerate(ctx._cases):
        keys = c["keys"]
        if len(keys) >= 2 and k % 3 == 0:
            for ctor in ("single", "single-kw", "single-pos-false", "single-pos-size", "single-kw-norel", "legacy", "legacy-args"):
                ins.append({"id": "mw%d-%s" % (k, ctor), "kind": "mergewriter", "langs": [keys, list(reversed(keys))], "ctor": ctor})
    # adjust: grid
    t1, t2 = 1_000_000, 3_000_000
    g = 0
    for p, q in [(1, 2), (1, 1), (3, 2), (4, 1), (1, 4), (7, 8)]:
        for off in [-t2 * 4, -t2, -t1 - 1, -t1, -t1 + 1, -1, 0, 1, 86_399_000_000]:
            for starts in [[t1, t2], [0, t1, t2], [t2], [], [0], [2, 3, 5],
                           # lists that are not in time order (document order by speaker, a stray early
                           # caption at the end): every caption is judged by its own new start
                           [t2, t1], [t2, 0, t1], [t1, t2, 0], [5, 3, 2], [t1, 0, t2, 1]]:
                ins.append({"id": "ga%d" % g, "kind": "adjust", "p": p, "q": q, "off": off,
                            "langs": [[(s, s + 700_000) for s in starts]]})
                g += 1
    for k in range(400 if ctx.quick else 80000):
        dy = rng.random() < 0.5
        if dy:
            q = rng.choice([1, 2, 4, 8, 16])
            p = rng.randrange(1, 4 * q + 1)
        else:
            q = rng.choice([10, 100, 1000, 3, 7, 1001])
            p = rng.randrange(1, 4 * q + 1)
        langs = []
        for _ in range(rng.randrange(1, 3)):
            t = 0
            caps = []
            for _ in range(rng.randrange(0, 12)):
                t += rng.choice([0, 1, 999, 1000, rng.randrange(10**6), rng.randrange(10**9)])
                caps.append((t, t + rng.randrange(0, 5_000_000)))
            if k % 3 == 0:
                rng.shuffle(caps)
            langs.append(caps)
        allt = [s for l in langs for s, _ in l] or [0]
        base = rng.choice(allt)
        off = rng.choice([0, 1, -1, rng.randrange(-10**9, 10**9),
                          -(base * p // q), -(base * p // q) - 1, -(base * p // q) + 1])
        ins.append({"id": "ra%d" % k, "kind": "adjust", "p": p, "q": q, "off": off, "langs": langs})
    return ins


def _mk(langs_desc, with_breaks):
    from pycaption import Caption, CaptionList, CaptionNode, CaptionSet
    caps = {}
    ids = {}
    nid = 0
    shared = {}
    for li, lst in enumerate(langs_desc):
        cl = CaptionList()
        for ci, item in enumerate(lst):
            if isinstance(item, str):
                s, e = TIMES[item]
            else:
                s, e = item
            nodes = [CaptionNode.create_text("L%d c%d a" % (li, ci))]
            if with_breaks == "blank" and ci % 2 == 0:
                nodes = [[CaptionNode.create_text("  ")], [CaptionNode.create_break()],
                         [CaptionNode.create_style(True, {"italics": True}), CaptionNode.create_style(False, {"italics": True})],
                         [CaptionNode.create_text("")]][(ci // 2) % 4]
            elif with_breaks in ("edge", "edge2"):
                shape = (ci + (1 if with_breaks == "edge2" else 0)) % 4     # trailing / leading / both / none
                if shape in (1, 2):
                    nodes.insert(0, CaptionNode.create_break())
                if shape in (0, 2):
                    nodes.append(CaptionNode.create_break())
            elif with_breaks and ci % 3 == 1:
                nodes.append(CaptionNode.create_break())
                nodes.append(CaptionNode.create_text("L%d c%d b" % (li, ci)))
            elif ci % 2 == 0:
                nodes.append(CaptionNode.create_text("L%d c%d b" % (li, ci)))
            if with_breaks == "shared":
                # every caption of this language with this timespan holds the very same list object
                nodes = shared.setdefault((li, str(item)), nodes)
            for n in nodes:
                if id(n) not in ids:
                    nid += 1
                    ids[id(n)] = nid
            style = {"class": "speaker%d" % (ci % 2)} if with_breaks == "styles" and ci % 3 else {}
            cl.append(Caption(s, e, nodes, style=style))
        caps["l%d" % li] = cl
    return CaptionSet(caps, styles={}), ids


def _key(c):
    return "%s|%s" % (Fraction(c.start), Fraction(c.end))


def _proj_nodes(c, ids):
    from pycaption import CaptionNode
    out = []
    for n in c.nodes:
        if id(n) in ids:
            out.append(ids[id(n)])
        elif n.type_ == CaptionNode.BREAK:
            out.append(0)
        else:
            out.append(-1)
    return out


def execute(inp):
    from pycaption.base import merge_concurrent_captions
    if inp["kind"] == "mergewriter":
        from pycaption.dfxp.extras import LegacyDFXPWriter, SinglePositioningDFXPWriter
        from pycaption.geometry import Alignment, HorizontalAlignmentEnum, Layout, VerticalAlignmentEnum
        from . import scan
        cs, ids = _mk(inp["langs"], False)
        langs = cs.get_languages()
        region = Layout(alignment=Alignment(HorizontalAlignmentEnum.CENTER, VerticalAlignmentEnum.BOTTOM))
        rec = {"kind": "mergewriter", "ok": False, "divs": [],
               "langs": [[{"t": _key(c), "n": _proj_nodes(c, ids)} for c in cs.get_captions(l)] for l in langs]}
        try:
            w = {"single": lambda: SinglePositioningDFXPWriter(region),
                 "single-kw": lambda: SinglePositioningDFXPWriter(default_positioning=region, relativize=True),
                 "single-pos-false": lambda: SinglePositioningDFXPWriter(region, False),
                 "single-pos-size": lambda: SinglePositioningDFXPWriter(region, True, 640, 360),
                 "single-kw-norel": lambda: SinglePositioningDFXPWriter(region, relativize=False, fit_to_screen=False),
                 "legacy": lambda: LegacyDFXPWriter(),
                 "legacy-args": lambda: LegacyDFXPWriter(False, 640, 360)}[inp["ctor"]]()
            out = w.write(cs)
            root, err = scan.parse_xml_strict(out)
            rec["divs"] = [len(dv["ps"]) for dv in scan.scan_dfxp(root)["divs"]]
            rec["ok"] = True
        except Exception as e:
            rec["err"] = type(e).__name__ + ": " + str(e)[:200]
        return rec
    if inp["kind"] == "merge":
        cs, ids = _mk(inp["langs"], inp.get("breaks", False))
        langs = cs.get_languages()
        ins = {l: [{"t": _key(c), "n": _proj_nodes(c, ids)} for c in cs.get_captions(l)] for l in langs}
        keep = [c for l in langs for c in cs.get_captions(l)]  # keep node objects alive
        r = merge_concurrent_captions(cs)
        out1 = {l: [{"t": _key(c), "n": _proj_nodes(c, ids)} for c in r.get_captions(l)] for l in langs}
        r2 = merge_concurrent_captions(r)
        out2 = {l: [{"t": _key(c), "n": _proj_nodes(c, ids)} for c in r2.get_captions(l)] for l in langs}
        del keep
        same_langs = r.get_languages() == langs and r2.get_languages() == langs
        return {"kind": "merge",
                "langs": [{"in": ins[l], "out": out1[l] if same_langs else [], "out2": out2[l]} for l in langs]}
    cs, ids = _mk(inp["langs"], False)
    langs = cs.get_languages()
    before = {l: [(id(c), c.start, c.end, [id(n) for n in c.nodes]) for c in cs.get_captions(l)] for l in langs}
    cid = {}
    for l in langs:
        for k, c in enumerate(cs.get_captions(l)):
            cid[id(c)] = k + 1
    keep = [c for l in langs for c in cs.get_captions(l)]
    skew = inp["p"] / inp["q"]
    cs.adjust_caption_timing(offset=inp["off"], rate_skew=skew)
    tol = 0
    lrec = []
    for l in langs:
        out = []
        for c in cs.get_captions(l):
            k = cid.get(id(c), 0)
            same = k > 0 and [id(n) for n in c.nodes] == before[l][k - 1][3]
            s, ex1 = ratio(c.start)
            e, ex2 = ratio(c.end)
            if not (ex1 and ex2):
                tol = 1
            out.append({"id": k, "s": s, "e": e, "same": bool(same)})
        lrec.append({"in": [{"id": k + 1, "s": limbs(b[1]), "e": limbs(b[2])} for k, b in enumerate(before[l])],
                     "out": out})
    # a skew that is not exactly representable makes the product inexact even when the
    # result happens to have a small denominator
    if Fraction(skew) != Fraction(inp["p"], inp["q"]):
        tol = 1
    del keep
    return {"kind": "adjust", "p": inp["p"], "q": inp["q"], "off": bigint(inp["off"]), "tol": tol, "langs": lrec}


def signature(inp, rec, clause):
    return {"clause": clause.split(" ")[0], "kind": rec["kind"]}


def nontrivial(inp, rec):
    if rec["kind"] == "mergewriter":
        return inp["id"]
    if rec["kind"] == "merge":
        if any(len(l["out"]) < len(l["in"]) for l in rec["langs"]):
            return [inp["langs"], inp.get("breaks", False)]
        return None
    if any(len(l["out"]) < len(l["in"]) for l in rec["langs"]) or inp["off"] != 0:
        return [inp["p"], inp["q"], inp["off"], inp["langs"]]
    return None


def corrupt(inp, rec):
    import copy
    out = []
    if rec["kind"] == "mergewriter":
        if rec["ok"] and rec["divs"]:
            c = copy.deepcopy(rec)
            c["divs"][0] += 1
            out.append(c)
        return out
    if rec["kind"] == "merge":
        for li, l in enumerate(rec["langs"]):
            if l["out"]:
                c = copy.deepcopy(rec)
                c["langs"][li]["out"][0]["n"] = c["langs"][li]["out"][0]["n"][:-1]
                out.append(c)
                c = copy.deepcopy(rec)
                c["langs"][li]["out"] = c["langs"][li]["out"][1:]
                out.append(c)
                if len(l["out"]) < len(l["in"]):
                    c = copy.deepcopy(rec)
                    c["langs"][li]["out"] = copy.deepcopy(l["in"])
                    c["langs"][li]["out2"] = copy.deepcopy(l["in"])
                    out.append(c)
                break
    else:
        for li, l in enumerate(rec["langs"]):
            if l["out"]:
                c = copy.deepcopy(rec)
                o = c["langs"][li]["out"][0]["s"]
                v = o["num"]
                from .num import from_limbs
                n = from_limbs(v["m"]) * v["s"] + 2 * o["den"]
                o["num"] = bigint(n)
                out.append(c)
                c = copy.deepcopy(rec)
                c["langs"][li]["out"] = c["langs"][li]["out"][1:]
                out.append(c)
                break
    return out
