"""C16  Roll-up and paint-on SCC text is conserved and ordered."""
import random
from fractions import Fraction

from . import sccgen, tlc
from .c05 import in_domain
from .num import limbs

PID = "C16"
TRACE = "Trace_SccText"
RULE = ("(G) roll-up streams for every depth 2-4 x base row {13,14,15} x 1-4 rows x single/doubled x drop/non-drop, with "
        "and without a repeated mode command after the carriage return; paint-on streams of 1-4 rows on adjacent and "
        "non-adjacent rows; (T) random streams of 1-8 rows with specials, extended characters, backspaces and mid-row "
        "codes, random gaps, mode switches between roll-up and paint-on. TLC computes the transmitted rows from the "
        "abstract program and checks conservation, row integrity, ordering and continuity of the returned captions. "
        "non-trivial = more than one row; distinct by program")
ASSUMPTIONS = ["a repeated roll-up command follows a carriage return on the same line (well-formed streams); the end of the very last caption is not constrained beyond start < end",
               "spaces are not counted (a mid-row code's cell is an optional space)"]


def model_runs(ctx):
    r = tlc.run("MC_Roll", cfg="MC_Roll" if ctx.quick else "MC_Roll10")
    ctx.add_tlc(r, "roll-up / paint-on design model: conservation, no empty caption, continuity on all event sequences")
    ctx.extra["exhaustive"] = True
    ctx.extra["bound"] = "event sequences of <= %d events over {RU, RDC, CR, TXT}; replay grid depth x base row x rows x doubling x timecode" % (8 if ctx.quick else 10)


def model_controls(ctx):
    r = tlc.run("MC_Roll", cfg="MC_Roll_neg", allow_violation=True, workers=2)
    if r.violated != "Conservation":
        raise tlc.MachineryError("MC_Roll_neg not refuted")
    ctx.add_tlc(r, "negative control: a reader that forgets the pending row on a mode switch is refuted")
    return 1


def _tc(f):
    return [f // (30 * 3600), (f // (30 * 60)) % 60, (f // 30) % 60, f % 30]


def _row_text(rng, rich, width=None):
    if not rich:
        # now and then a row as wide as the screen (32 columns from column 0) or one short of it
        n = width or rng.choice([rng.randrange(1, 12)] * 6 + [31, 32])
        cps = [rng.choice(sccgen.LETTERS) for _ in range(n)]
        syms = []
        for k in range(0, len(cps) - 1, 2):
            syms.append({"k": "CH", "a": cps[k], "b": cps[k + 1]})
        if len(cps) % 2:
            syms.append({"k": "CH", "a": cps[-1], "b": 0})
        return syms
    return sccgen._row_items(rng, rng.choice([8, 16, 28]))


def roll_program(rng, depth, base, nrows, drop, repeat_ru, rich=False, gap=None, final_cr=None):
    lines = []
    f = rng.randrange(30, 3000)
    for k in range(nrows):
        syms = []
        if k == 0:
            syms.append({"k": "RU", "n": depth})
        syms.append({"k": "CR"})
        if repeat_ru and k > 0:
            syms.append({"k": "RU", "n": depth})
        body = _row_text(rng, rich)
        wide = sum(2 if (s["k"] == "CH" and s["b"]) else 1 for s in body) > 20
        syms.append({"k": "PAC", "r": base, "c": 0 if wide else rng.choice([0, 0, 4, 8]), "i": False})
        syms += body
        lines.append({"tc": _tc(f), "drop": drop, "syms": syms})
        f += len(syms) * 2 + (gap if gap is not None else rng.randrange(10, 200))
    # a closing carriage return ends the last row there and then; inside a longer stream the
    # next mode command does it (otherwise the last row would end before the next one begins)
    if final_cr if final_cr is not None else rng.random() < 0.5:
        lines.append({"tc": _tc(f), "drop": drop, "syms": [{"k": "CR"}]})
    return lines


def paint_program(rng, nrows, drop, adjacent, rich=False, rdc_each=False, same_row=None, gap=None, start=None):
    """rdc_each: every row is introduced by its own Resume-Direct-Captioning (each is then a caption of
    its own); same_row: all rows are addressed to that one row and column (a live display that keeps
    painting its single row); gap: frames between lines"""
    lines = []
    f = rng.randrange(30, 3000) if start is None else start
    rows = list(range(15 - nrows + 1, 16)) if adjacent else sorted(rng.sample(range(1, 16), nrows))
    if same_row:
        rows = [same_row] * nrows
    for k, r in enumerate(rows):
        syms = []
        if k == 0 or rdc_each:
            syms.append({"k": "RDC"})
        body = _row_text(rng, rich, width=rng.randrange(2, 9) if same_row else None)
        wide = sum(2 if (s["k"] == "CH" and s["b"]) else 1 for s in body) > 20
        syms.append({"k": "PAC", "r": r, "c": 0 if (wide or same_row) else rng.choice([0, 4]), "i": False})
        syms += body
        lines.append({"tc": _tc(f), "drop": drop, "syms": syms})
        f += len(syms) * 2 + (gap if gap is not None else rng.randrange(10, 200))
    return lines


def inputs(ctx):
    rng = random.Random(ctx.seed * 275604541 + 16)
    ins = []
    n = 0
    for depth in (2, 3, 4):
        for base in (13, 14, 15):
            for nrows in (1, 2, 3, 4):
                for doubled in (False, True):
                    for drop in (False, True):
                        for rep in (False, True):
                            if ctx.quick and (n % 3):
                                n += 1
                                continue
                            ins.append({"id": "u%d" % n, "lines": roll_program(rng, depth, base, nrows, drop, rep),
                                        "doubled": doubled})
                            n += 1
    for nrows in (1, 2, 3, 4):
        for adjacent in (False, True):
            for doubled in (False, True):
                for drop in (False, True):
                    ins.append({"id": "t%d" % n, "lines": paint_program(rng, nrows, drop, adjacent), "doubled": doubled})
                    n += 1
    # paint-on where every row has its own Resume-Direct-Captioning: rows far apart, adjacent, or the
    # same row and column painted again and again, lines closely spaced or seconds apart
    for nrows in (2, 3):
        for doubled in (False, True):
            for gap in (2, 12, 90):
                for shape in ("same", "adjacent", "apart"):
                    ins.append({"id": "q%d" % n, "doubled": doubled,
                                "lines": paint_program(rng, nrows, n % 2 == 0, shape == "adjacent", rdc_each=True,
                                                       same_row=rng.choice([1, 8, 15]) if shape == "same" else None, gap=gap)})
                    n += 1
    # a programme that starts with the very first frame: the first mode command is the first word of a
    # line labelled 00:00:00:00 (the first caption then starts at 0)
    for drop in (False, True):
        for doubled in (False, True):
            for depth in (2, 3):
                lines = roll_program(rng, depth, 15, 3, drop, False, final_cr=True)
                f = 0
                for ln in lines:
                    ln["tc"] = _tc(f)
                    f += len(ln["syms"]) * 2 + 40
                ins.append({"id": "z%d" % n, "lines": lines, "doubled": doubled})
                n += 1
            ins.append({"id": "z%d" % n, "lines": paint_program(rng, 3, drop, True, start=0, gap=40), "doubled": doubled})
            n += 1
            ins.append({"id": "z%d" % n, "lines": paint_program(rng, 2, drop, False, rdc_each=True, start=0, gap=40), "doubled": doubled})
            n += 1
    # every pattern of mode switches up to four parts (P = paint-on block, R = roll-up block), each
    # part left with text pending when the next mode command arrives
    import itertools
    for npat in (2, 3, 4):
        for pat in itertools.product("PR", repeat=npat):
            if all(a == pat[0] for a in pat):
                continue
            for doubled in (False, True):
                drop = (n % 2 == 0)
                lines = []
                f = 300
                for pi, kind in enumerate(pat):
                    part = (paint_program(rng, 1 + (pi % 2), drop, True) if kind == "P" else
                            roll_program(rng, 2 + pi % 3, 15, 1 + (pi % 2), drop, False, final_cr=False))
                    for ln in part:
                        lines.append({"tc": _tc(f), "drop": drop, "syms": ln["syms"]})
                        f += len(ln["syms"]) * 2 + 40
                ins.append({"id": "m%d" % n, "lines": lines, "doubled": doubled})
                n += 1
    # the same two shapes across an hour boundary (00:59:58 -> 01:00:01)
    for drop in (False, True):
        for kind in ("R", "P"):
            part = (paint_program(rng, 3, drop, True) if kind == "P" else roll_program(rng, 3, 15, 3, drop, False, final_cr=True))
            f = 30 * 3600 - 60
            lines = []
            for ln in part:
                lines.append({"tc": _tc(f), "drop": drop, "syms": ln["syms"]})
                f += len(ln["syms"]) * 2 + 50
            ins.append({"id": "h%d" % n, "lines": lines, "doubled": n % 2 == 0})
            n += 1
    for k in range(400 if ctx.quick else 80000):
        drop = rng.random() < 0.5
        parts = []
        nparts = rng.choice([1, 1, 2, 3])
        for pi in range(nparts):
            if rng.random() < 0.6:
                parts.append(roll_program(rng, rng.choice([2, 3, 4]), rng.choice([13, 14, 15]), rng.randrange(1, 9), drop,
                                          rng.random() < 0.3, rich=rng.random() < 0.6,
                                          final_cr=(rng.random() < 0.5) if pi == nparts - 1 else False))
            else:
                parts.append(paint_program(rng, rng.randrange(1, 5), drop, rng.random() < 0.5, rich=rng.random() < 0.6))
        # concatenate the parts on one time line
        lines = []
        # now and then late in the day, or across an hour boundary
        f = rng.choice([rng.randrange(30, 3000)] * 3 + [rng.randrange(0, 30 * 3600 * 23), 30 * 3600 * rng.randrange(1, 23) - rng.randrange(30, 200)])
        for p in parts:
            for ln in p:
                lines.append({"tc": _tc(f), "drop": drop, "syms": ln["syms"]})
                f += len(ln["syms"]) * 2 + rng.randrange(10, 200)
        ins.append({"id": "r%d" % k, "lines": lines, "doubled": rng.random() < 0.5})
    return [i for i in ins if in_domain(i["lines"], i["doubled"])]


def execute(inp):
    import pycaption
    text, abs_lines = sccgen.render_program(inp["lines"], inp["doubled"])
    obs = {"ok": False, "err": "", "caps": []}
    try:
        cs = pycaption.SCCReader().read(text)
        obs["ok"] = True
        for c in cs.get_captions(cs.get_languages()[0]):
            obs["caps"].append({"start": limbs(round(Fraction(c.start) * 1000)), "end": limbs(round(Fraction(c.end) * 1000)),
                                "lines": [[ord(ch) for ch in ln] for ln in c.get_text().split("\n")]})
    except Exception as e:
        obs["err"] = type(e).__name__ + ": " + str(e)[:200]
    return {"k": "roll", "prog": abs_lines, "obs": obs}


def signature(inp, rec, clause):
    kinds = {s["k"] for ln in inp["lines"] for s in ln["syms"]}
    return {"clause": clause.split(" ")[0], "paint": "RDC" in kinds, "roll": "RU" in kinds}


def nontrivial(inp, rec):
    return inp["id"] if sum(1 for ln in inp["lines"] for s in ln["syms"] if s["k"] == "PAC") > 1 else None


def corrupt(inp, rec):
    import copy
    if not rec["obs"]["ok"] or not rec["obs"]["caps"]:
        return []
    out = []
    c = copy.deepcopy(rec)
    for ln in c["obs"]["caps"][0]["lines"]:
        vis = [k for k, x in enumerate(ln) if x not in (32, 160)]
        if vis:
            del ln[vis[0]]
            out.append(c)
            break
    if len(rec["obs"]["caps"]) > 1:
        c = copy.deepcopy(rec)
        c["obs"]["caps"][0], c["obs"]["caps"][1] = c["obs"]["caps"][1], c["obs"]["caps"][0]
        out.append(c)
    return out
