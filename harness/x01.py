"""X01  (extension, not one of the twenty properties)  SCCReader follows spec/SccReader.tla step by step.

Executions of SCCReader.read() are recorded through the guarded hook (PYCAPTION_VERIF, one
event per consumed line / word / end of read, logged after the state change) and replayed by
TLC through the actions of SccReader.tla; after every event the logged control state (active
buffer, buffer emptiness, displayed-cue queue, stored captions with their times, reader time,
frame counter, last_command, double_starter, roll_rows_expected) must equal the model's."""
import random
from fractions import Fraction

from . import sccgen, tlc
from .num import limbs

PID = "X01"
TRACE = "Trace_SccReader"
RULE = ("every program of the generators of C05 / C06 / C15 / C16 (pop-on loads with inline / separate / missing erase, "
        "roll-up depth 2-4, paint-on, mode-switch patterns, single and doubled codes, both timecode flavours) read with the "
        "hook on; every logged step replayed through SccReader.tla by TLC. distinct by program")
ASSUMPTIONS = ["offset 0 and simulate_roll_up=False (not modelled)",
               "word classes come from the harness's own CEA-608 code tables, not from pycaption's"]


def model_runs(ctx):
    res = tlc.run("MC_SccReader", cfg="MC_SccReader" if ctx.quick else "MC_SccReader9", timeout=3000)
    ctx.add_tlc(res, "control skeleton: queue of displayed cues never longer than one, stored captions ordered, "
                     "every stored end 0 or >= start, on every word sequence up to the bound")
    ctx.extra["exhaustive"] = True
    ctx.extra["bound"] = "word sequences of length <= %d over 10 word classes, 3 line gaps" % (7 if ctx.quick else 9)


def model_controls(ctx):
    # with Erase-Non-displayed-Memory allowed while roll-up / paint-on is the active mode (real streams
    # send "94ae 94ae 9420 9420" there), TLC finds pending roll-up / paint-on text thrown away
    r = tlc.run("MC_SccReader", cfg="MC_SccReader_neg", allow_violation=True, workers=4)
    if r.violated != "NoRollOrPaintTextErased":
        raise tlc.MachineryError("MC_SccReader_neg: expected NoRollOrPaintTextErased to be refuted, got %r" % r.violated)
    ctx.add_tlc(r, "negative control / observation: ENM in roll-up or paint-on mode erases the pending text of that mode")
    # with last_command surviving every line change (as found), a later line's first word can be
    # taken for a repetition
    r2 = tlc.run("MC_SccReader", cfg="MC_SccReader_negline", allow_violation=True, workers=4)
    if r2.violated != "LaterLineWordsAreExecuted":
        raise tlc.MachineryError("MC_SccReader_negline: expected LaterLineWordsAreExecuted to be refuted, got %r" % r2.violated)
    ctx.add_tlc(r2, "negative control: the reader as found (last_command kept across lines) skips the first word of a later line")
    return 2


def inputs(ctx):
    from . import c06, c15, c16
    rng = random.Random(ctx.seed * 334214467 + 101)
    ins = []
    n = 0
    for k in range(250 if ctx.quick else 8000):
        ins.append({"id": "p%d" % k, "lines": sccgen.popon_program(rng), "doubled": rng.random() < 0.5})
    for k in range(120 if ctx.quick else 4000):
        drop = rng.random() < 0.5
        if rng.random() < 0.6:
            lines = c16.roll_program(rng, rng.choice([2, 3, 4]), rng.choice([13, 14, 15]), rng.randrange(1, 7), drop,
                                     rng.random() < 0.3, rich=rng.random() < 0.5, final_cr=rng.random() < 0.5)
        else:
            lines = c16.paint_program(rng, rng.randrange(1, 5), drop, rng.random() < 0.5, rich=rng.random() < 0.5)
        ins.append({"id": "u%d" % k, "lines": lines, "doubled": rng.random() < 0.5})
    # a line that goes on in the frame right after the previous one and starts with the code that one
    # ended with (the only case where a repetition is recognised across lines), next to the same
    # program with a later label
    for dbl in (False, True):
        for drop in (False, True):
            for gap in (0, 1, 2, 30):
                for code in ("EOC", "EDM", "ENM"):
                    a = [{"k": "ENM"}, {"k": "RCL"}, {"k": "PAC", "r": 14, "c": 0, "i": False},
                         {"k": "CH", "a": 65, "b": 66}, {"k": "EOC"}]
                    if code != "EOC":
                        a.append({"k": code})
                    words = (len(a) - 1) * (2 if dbl else 1) + 1
                    b = [{"k": code}, {"k": "ENM"}, {"k": "RCL"}, {"k": "PAC", "r": 2, "c": 0, "i": False},
                         {"k": "CH", "a": 67, "b": 68}, {"k": "EOC"}]
                    f0, f1 = 900, 900 + words + gap
                    tc = lambda f: [f // 108000, (f // 1800) % 60, (f // 30) % 60, f % 30]
                    ins.append({"id": "s%d" % n, "doubled": dbl,
                                "lines": [{"tc": tc(f0), "drop": drop, "syms": a}, {"tc": tc(f1), "drop": drop, "syms": b},
                                          {"tc": tc(f1 + 90), "drop": drop, "syms": [{"k": "EDM"}]}]})
                    n += 1
    # the inputs of the property checks, as they are
    class _Q:
        quick = True
        seed = ctx.seed
    for mod, tag in ((c16, "c16"), (c15, "c15"), (c06, "c06")):
        got = mod.inputs(_Q())
        step = 1 if not ctx.quick else max(1, len(got) // 150)
        for i in got[::step]:
            lines = i["lines"] if "lines" in i else c06.build_lines(i)
            if i.get("offset"):
                continue
            ins.append({"id": "%s-%s" % (tag, i["id"]), "lines": lines, "doubled": i["doubled"]})
    return ins


CLASS = {"RCL": "RCL", "RDC": "RDC", "ENM": "ENM", "EOC": "EOC", "CR": "CR", "EDM": "EDM", "BS": "BS", "NOP": "CTL",
         "PAC": "PAC", "TO": "TO", "MID": "MID", "SP": "SPECIAL", "EXT": "EXT", "CH": "CHARS"}


def _ns(x):
    return limbs(round(Fraction(x) * 1000))


def _obs(e):
    return {"mode": e["mode"], "empty": e["empty"], "q": [_ns(t) for t in e["q"]],
            "stash": [[_ns(s), _ns(t)] for s, t in e["stash"]], "time": _ns(e["time"]), "frames": e["frames"],
            "last": e["last"], "dstart": bool(e["dstart"]), "rows": e["rows"], "skipped": bool(e["skipped"])}


def execute(inp):
    import pycaption
    import pycaption.scc as scc
    text, _ = sccgen.render_program(inp["lines"], inp["doubled"])
    rec = {"k": "reader", "drop": bool(inp["lines"][0]["drop"]), "logged": scc._VERIF_LOG is not None, "events": []}
    if scc._VERIF_LOG is None:
        return rec
    del scc._VERIF_LOG[:]
    try:
        pycaption.SCCReader().read(text)
        rec["raised"] = ""
    except Exception as e:          # the length / duration / no-caption errors come after the last step
        rec["raised"] = type(e).__name__
    log = list(scc._VERIF_LOG)
    del scc._VERIF_LOG[:]
    for e in log:
        if e["k"] == "begin":
            continue
        if e["k"] == "line":
            h, m, s, f = [int(x) for x in e["label"].replace(";", ":").split(":")]
            rec["events"].append({"k": "line", "f": ((h * 60 + m) * 60 + s) * 30 + f})
        elif e["k"] == "word":
            w = e["w"]
            d = sccgen.decode_word(int(w[:2], 16) & 0x7F, int(w[2:], 16) & 0x7F)
            c = "RU%d" % d["n"] if d["k"] == "RU" else CLASS.get(d["k"])
            if c is None:
                raise ValueError("word %s outside the harness's tables: %r" % (w, d))
            rec["events"].append({"k": "word", "w": w, "c": c, "obs": _obs(e)})
        elif e["k"] == "end":
            rec["events"].append({"k": "end", "obs": _obs(e)})
    return rec


def signature(inp, rec, clause):
    return {"clause": clause.split("@")[0], "at": clause.split(":")[-1] if ":" in clause else ""}


def nontrivial(inp, rec):
    return inp["id"]


def corrupt(inp, rec):
    import copy
    out = []
    ev = rec["events"]
    words = [k for k, e in enumerate(ev) if e["k"] == "word"]
    if not words:
        return out
    # one logged field changed at one step: the replay must stop there
    k = words[len(words) // 2]
    c = copy.deepcopy(rec)
    c["events"][k]["obs"]["frames"] += 1
    out.append(c)
    c = copy.deepcopy(rec)
    c["events"][k]["obs"]["skipped"] = not c["events"][k]["obs"]["skipped"]
    out.append(c)
    last = [j for j in words if ev[j]["obs"]["stash"]]
    if last:
        c = copy.deepcopy(rec)
        c["events"][last[-1]]["obs"]["stash"][-1][0] = _ns(12345678)
        out.append(c)
    # a hook removed: drop one word event
    c = copy.deepcopy(rec)
    del c["events"][k]
    out.append(c)
    return out
