"""C11  Italic, bold and underline spans survive conversion and stay balanced."""
import random
import re
from html.parser import HTMLParser

from . import build, corpus, scan, tlc
from .registry import READERS, WRITERS

PID = "C11"
TRACE = "Trace_Markup"
RULE = ("(G) every balanced flat node stream of MC_Markup (length <= 5 quick / 7 thorough over text, break, "
        "style on/off with i, b, u, i+b) through the routes DFXP, SAMI, WebVTT, legacy and single-position DFXP, "
        "DFXP->SAMI and SAMI->DFXP: the written markup is tokenised by independent parsers, the set is read back by "
        "pycaption's reader, and flags per visible character / balance are evaluated by TLC; (T) random streams of "
        "5-30 nodes incl. adjacent, empty and line-crossing spans; plus every caption returned by the six readers on "
        "the corpus documents (balance only). non-trivial = the stream has a style span; distinct by (route, stream)")
ASSUMPTIONS = ["spans are flat and each lies within nodes of one layout (the property's domain)",
               "flags are compared on visible, non-space characters; DFXP carries italics only"]

ROUTES = [["DFXP"], ["SAMI"], ["WebVTT"], ["DFXP-legacy"], ["DFXP-single"], ["DFXP", "SAMI"], ["SAMI", "DFXP"]]
READER_OF = {"DFXP": "DFXP", "DFXP-legacy": "DFXP", "DFXP-single": "DFXP", "SAMI": "SAMI"}
KEY = {"i": "italics", "b": "bold", "u": "underline"}


def model_runs(ctx):
    res = tlc.run("MC_Markup", cfg="MC_Markup" if ctx.quick else "MC_Markup7")
    ctx.add_tlc(res, "span reconstruction design models (open_span flag) yield balanced markup covering exactly the flagged characters")
    ctx._cases = res.cases()
    res2 = tlc.run("MC_Styles")
    ctx.add_tlc(res2, "DFXP style table: with referenced styles written first every reference to a defined style survives, on all "
                      "acyclic reference graphs over three styles x italic carrier x span target")
    ctx._styles = res2.cases()
    ctx.extra["exhaustive"] = True
    ctx.extra["bound"] = "balanced flat node streams of length <= %d; 864 style-reference cases" % (5 if ctx.quick else 7)


def model_controls(ctx):
    r = tlc.run("MC_Styles", cfg="MC_Styles_neg", allow_violation=True, workers=4)
    if r.violated != "ModelMeetsRequirement":
        raise tlc.MachineryError("MC_Styles_neg not refuted")
    ctx.add_tlc(r, "negative control: the style table written in id order (as found) loses a forward reference")
    return 1


def inputs(ctx):
    rng = random.Random(ctx.seed * 141650939 + 11)
    ins = []
    n = 0
    for k, c in enumerate(ctx._cases):
        for r in (ROUTES if not ctx.quick else [ROUTES[k % 7], ROUTES[(k + 3) % 7], ROUTES[(k + 5) % 7]]):
            ins.append({"id": "g%d" % n, "k": "spans", "nodes": c["nodes"], "route": r})
            n += 1
    for k in range(400 if ctx.quick else 20000):
        nodes = []
        cur = None
        nt = 0
        for _ in range(rng.randrange(5, 31)):
            r = rng.random()
            if r < 0.5:
                nodes.append({"t": "T", "s": [ord(c) for c in rng.choice(["word", "two words", "x", "Hello", " lead", "trail "])]})
                nt += 1
            elif r < 0.65 and nodes:
                nodes.append({"t": "BR"})
            elif cur is None:
                cur = rng.choice([["i"], ["b"], ["u"], ["i", "b"], ["i", "b", "u"], ["b", "u"]])
                nodes.append({"t": "S", "on": True, "st": cur})
            else:
                nodes.append({"t": "S", "on": False, "st": cur})
                cur = None
        if cur is not None:
            nodes.append({"t": "S", "on": False, "st": cur})
        if nt == 0:
            nodes.append({"t": "T", "s": [120]})
        ins.append({"id": "r%d" % k, "k": "spans", "nodes": nodes, "route": rng.choice(ROUTES)})
    # spans that name a style class (all the same one) next to their own italics / bold / underline:
    # what one span resolved to must not be handed to the next
    for k in range(150 if ctx.quick else 6000):
        nodes = []
        for j in range(rng.randrange(2, 5)):
            st = rng.choice([[], ["i"], ["b"], ["u"], ["i", "b"], ["i", "u"]])
            nodes += [{"t": "T", "s": [ord(c) for c in "w%d " % j]}, {"t": "S", "on": True, "st": st, "cls": True},
                      {"t": "T", "s": [ord(c) for c in rng.choice(["AAAA", "bb bb", "C"])]},
                      {"t": "S", "on": False, "st": st, "cls": True}]
            if rng.random() < 0.3:
                nodes.append({"t": "BR"})
        nodes.append({"t": "T", "s": [ord(c) for c in " end"]})
        for r in ([["DFXP"], ["SAMI"], ["WebVTT"]] if k < 60 else [rng.choice(ROUTES)]):
            ins.append({"id": "cl%d-%s" % (k, "-".join(r)), "k": "spans", "nodes": nodes, "route": r})
    # the same streams as documents of the harness's own making in which every span spells out all three
    # properties, also the ones that are off (font-style:normal ...)
    base = [c["nodes"] for c in ctx._cases if any(n["t"] == "S" for n in c["nodes"])]
    for k, nodes in enumerate(base if not ctx.quick else base[::3]):
        for src in ("SAMI", "DFXP"):
            for r in (["DFXP"], ["SAMI"], ["WebVTT"]):
                if ctx.quick and (k + len(r[0])) % 2:
                    continue
                ins.append({"id": "x%d-%s-%s" % (k, src, r[0]), "k": "spans", "nodes": nodes, "route": r, "src": src})
    # spans that only REFER to styles (DFXP style="id", lists of ids, a style built on another;
    # SAMI class="name" with the rule in the style sheet)
    for k, nodes in enumerate(base if not ctx.quick else base[::4]):
        for src, modes in (("DFXP", ("single", "list", "chain", "chain-rev")), ("SAMI", ("single", "id", "two"))):
            for mode in modes:
                for r in (["DFXP"], ["SAMI"], ["WebVTT"]):
                    if ctx.quick and (k + len(mode) + len(r[0])) % 3:
                        continue
                    ins.append({"id": "rf%d-%s-%s-%s" % (k, src, mode, r[0]), "k": "spans", "nodes": nodes, "route": r,
                                "src": src, "refs": mode})
    # lines that hold nothing but a span that writes nothing in the target format (a colour class, a span
    # without properties), between two breaks or at the start: the line must not become a blank line
    # that ends the cue block (WebVTT, SRT-like block formats), and the italics after it must survive
    def T(x):
        return {"t": "T", "s": [ord(c) for c in x]}
    BR = {"t": "BR"}
    for cls in (True, False):
        c1, c0 = {"t": "S", "on": True, "st": [], "cls": cls}, {"t": "S", "on": False, "st": [], "cls": cls}
        i1, i0 = {"t": "S", "on": True, "st": ["i"]}, {"t": "S", "on": False, "st": ["i"]}
        shapes = [[c1, T("NARRATOR"), BR, c0, BR, i1, T("far away"), i0],
                  [c1, BR, T("late"), c0, T(" "), i1, T("it"), i0],
                  [T("one"), BR, c1, BR, T("two"), c0, BR, i1, T("three"), i0],
                  [T("one"), BR, c1, c0, BR, i1, T("two"), i0],
                  [i1, T("a"), i0, BR, c1, c0, BR, T("b")],
                  [T("one"), BR, i1, i0, BR, T("two")]]
        for k, nodes in enumerate(shapes):
            for r in (["WebVTT"], ["DFXP"], ["SAMI"], ["DFXP", "WebVTT"], ["SAMI", "WebVTT"]):
                ins.append({"id": "bl%d%s-%s" % (k, "c" if cls else "n", "-".join(r)), "k": "spans", "nodes": nodes, "route": r})
    # SAMI sources that spell their spans <i> / <b> / <u>, the element running across line breaks
    for k, nodes in enumerate(base if not ctx.quick else base[::3]):
        # (one style per span: nested elements are several spans at once, outside the flat-span domain)
        if any(n["t"] == "S" and len(n["st"]) != 1 for n in nodes):
            continue
        for r in (["DFXP"], ["SAMI"], ["WebVTT"]):
            if ctx.quick and (k + len(r[0])) % 2:
                continue
            ins.append({"id": "tg%d-%s" % (k, r[0]), "k": "spans", "nodes": nodes, "route": r, "src": "SAMI-tags"})
    # WebVTT: a span that is closed again, and later in the caption text at another position (the
    # caption is written as two cue blocks): tags are balanced in each block
    def T2(x, lay=None):
        d = {"t": "T", "s": [ord(c) for c in x]}
        if lay:
            d["lay"] = lay
        return d
    for st in (["i"], ["i", "b"], ["b", "u"], ["i", "b", "u"]):
        s1, s0 = {"t": "S", "on": True, "st": st}, {"t": "S", "on": False, "st": st}
        for nodes in ([T2("plain ", "a"), s1, T2("MARKED", "a"), s0, T2(" tail", "a"), T2("elsewhere", "b")],
                      [s1, T2("MARKED", "a"), s0, T2("elsewhere", "b"), s1, T2("again", "b"), s0],
                      [T2("one", "a"), {"t": "BR"}, s1, T2("two", "a"), s0, {"t": "BR"}, T2("three", "b")],
                      [s1, T2("open across", "a"), T2("two places", "b"), s0]):
            ins.append({"id": "lp%d" % len(ins), "k": "spans", "nodes": nodes, "route": ["WebVTT"]})
    # every behaviour of the style-table model (MC_Styles): three styles in their definition order, one
    # italic, references between them, a span naming one of them; read and written again
    for k, c in enumerate(ctx._styles):
        if ctx.quick and k % 2:
            continue
        defs = []
        for sid in c["order"]:
            attrs = 'xml:id="s_%s" tts:color="%s"' % (sid, {"a": "red", "b": "blue", "c": "lime"}[sid])
            if c["ref"][sid] != "none":
                attrs += ' style="s_%s"' % c["ref"][sid]
            if c["italic"] == sid:
                attrs += ' tts:fontStyle="italic"'
            defs.append("<style %s/>" % attrs)
        st = ["i"] if c["want"] else []
        nodes = [{"t": "T", "s": [97, 32]}, {"t": "S", "on": True, "st": st}, {"t": "T", "s": [98, 98]}, {"t": "S", "on": False, "st": st}]
        for r in (["DFXP"], ["WebVTT"]):
            ins.append({"id": "sg%d-%s" % (k, r[0]), "k": "spans", "nodes": nodes, "route": r, "src": "DFXP", "refs": "graph",
                        "sg": {"defs": "".join(defs), "target": c["target"]}})
    # a caption that is italic as a whole through the style class it names, in a document that also has a
    # style called "p" (DFXP writers)
    plain = [c["nodes"] for c in ctx._cases if not any(n["t"] == "S" for n in c["nodes"])]
    for k, inner in enumerate(plain[:40]):
        wrapped = [{"t": "S", "on": True, "st": ["i"]}] + inner + [{"t": "S", "on": False, "st": ["i"]}]
        for r in (["DFXP"], ["DFXP-single"], ["DFXP-legacy"]):
            ins.append({"id": "cc%d-%s" % (k, r[0]), "k": "spans", "nodes": wrapped, "inner": inner, "route": r, "capclass": True})
    for d in corpus.readable_docs():
        ins.append({"id": "d-" + d, "k": "balanced", "doc": d})
    # every caption the SCC reader returns on random pop-on programs with italic preambles
    # and mid-row codes (the italics normalisation passes)
    from . import sccgen
    for k in range(200 if ctx.quick else 5000):
        ins.append({"id": "scc%d" % k, "k": "balanced", "scc": sccgen.popon_program(rng), "doubled": rng.random() < 0.5})
    # runs of mid-row codes with no character between them (on, off, on / off, on, off ...) before text
    kk = 0
    for run in ([True, False, True], [False, True, False], [True, False], [True, False, True, False, True], [True, True, False]):
        for lead in ("", "AB"):
            syms = [{"k": "ENM"}, {"k": "RCL"}, {"k": "PAC", "r": 15, "c": 0, "i": False}]
            if lead:
                syms.append({"k": "CH", "a": 65, "b": 66})
            syms += [{"k": "MID", "i": x} for x in run] + [{"k": "CH", "a": 97, "b": 98}, {"k": "CH", "a": 99, "b": 100}, {"k": "EOC"}]
            lines = [{"tc": [0, 0, 10, 0], "drop": False, "syms": syms}, {"tc": [0, 0, 14, 0], "drop": False, "syms": [{"k": "EDM"}]}]
            for doubled in (False, True):
                ins.append({"id": "scm%d" % kk, "k": "balanced", "scc": lines, "doubled": doubled})
                kk += 1
    # loads whose rows all open with an italic preamble, on adjacent and far-apart rows, one or two
    # loads per program: italics carried across one, two, three repositionings
    k = 0
    for rows_list in ([[2, 8, 14]], [[1, 5, 9, 13]], [[3, 9]], [[3, 9], [2, 12]], [[2, 8, 14], [1, 5, 9]], [[13, 14, 15]],
                      [[2, 3, 9, 10]], [[4, 8], [4, 8], [4, 8]]):
        for plain_at in (None, 0, 1):
            lines = []
            f = 300
            for rows in rows_list:
                syms = [{"k": "ENM"}, {"k": "RCL"}]
                for j, r in enumerate(rows):
                    syms.append({"k": "PAC", "r": r, "c": 0, "i": j != plain_at})
                    syms.append({"k": "CH", "a": sccgen.LETTERS[(r + j) % 20], "b": sccgen.LETTERS[(r + 3 * j) % 20]})
                syms.append({"k": "EOC"})
                lines.append({"tc": [0, 0, f // 30, f % 30], "drop": False, "syms": syms})
                f += 120
            lines.append({"tc": [0, 0, f // 30, f % 30], "drop": False, "syms": [{"k": "EDM"}]})
            for doubled in (False, True):
                ins.append({"id": "sci%d" % k, "k": "balanced", "scc": lines, "doubled": doubled})
                k += 1
    return ins


LAYS = {"a": {"o": [["10", "%"], ["10", "%"]]}, "b": {"o": [["40", "%"], ["70", "%"]], "a": ["left", None]}}


def _set_from_nodes(nodes, capclass=False):
    desc_nodes = []
    for n in nodes:
        if n["t"] == "T":
            desc_nodes.append(["t", "".join(chr(c) for c in n["s"])] + ([LAYS[n["lay"]]] if n.get("lay") else []))
        elif n["t"] == "BR":
            desc_nodes.append(["b"])
        else:
            content = {KEY[x]: True for x in n["st"]}
            if n.get("cls"):
                content["class"] = "y"        # a style class that says nothing about italics / bold / underline
            desc_nodes.append(["s", n["on"], content])
    cap = {"s": 1000000, "e": 2000000, "nodes": desc_nodes}
    styles = {"y": {"color": "red"}}
    if capclass:
        # the caption as a whole is italic through its own style class, next to a document-wide "p" style
        cap["style"] = {"class": "narrator"}
        styles["narrator"] = {"italics": True}
        styles["p"] = {"color": "white"}
    return build.caption_set({"langs": [{"lang": "en-US", "caps": [cap]}], "styles": styles})


def _esc(text):
    return text.replace("&", "&amp;").replace("<", "&lt;").replace(">", "&gt;")


COMBO = {"i": ("tts:fontStyle", "italic", "font-style", "italic"), "b": ("tts:fontWeight", "bold", "font-weight", "bold"),
         "u": ("tts:textDecoration", "underline", "text-decoration", "underline")}


def _ref_doc_from_nodes(nodes, kind, mode):
    """the node stream as a document whose spans carry no properties of their own but REFER to styles:
    DFXP style="id" (mode single: one style per combination; list: style="s_i s_b"; chain: s_ib is
    defined as style="s_i" plus bold), SAMI class="name" with the rules in the style sheet"""
    from . import render
    combos = sorted({"".join(sorted(n["st"])) for n in nodes if n["t"] == "S" and n["st"]})
    out = []
    for n in nodes:
        if n["t"] == "T":
            out.append(_esc("".join(chr(c) for c in n["s"])))
        elif n["t"] == "BR":
            out.append("<br/>")
        elif n["on"]:
            key = "".join(sorted(n["st"]))
            if not key:
                out.append("<span>")
            elif kind == "DFXP":
                ref = " ".join("s_" + x for x in key) if mode == "list" else "s_" + key
                out.append('<span style="%s">' % ref)
            elif mode == "two":
                # two classes, the first one carries the rule (the reader keeps the first)
                out.append('<span class="s_%s loud">' % key)
            elif mode == "id":
                # the rule hangs on the element's id; its classes say nothing about italics / bold / underline
                out.append('<span class="tint loud" id="s_%s">' % key)
            else:
                out.append('<span class="s_%s">' % key)
        else:
            out.append("</span>")
    body = "".join(out)
    if kind == "DFXP":
        defs = []
        need = set(combos)
        if mode in ("list", "chain", "chain-rev"):
            need |= {x for c in combos for x in c}
        # chain-rev: the same styles, each defined BEFORE the one it builds on (references may point forward)
        for c in sorted(need, reverse=(mode == "chain-rev")):
            if mode in ("chain", "chain-rev") and len(c) > 1:
                # one property comes from the style referred to (italics when there are any: the one
                # every target format carries), the rest are the style's own
                ref = "i" if "i" in c else c[0]
                own = " ".join('%s="%s"' % COMBO[x][:2] for x in c if x != ref)
                defs.append('<style xml:id="s_%s" style="s_%s" %s/>' % (c, ref, own))
            elif mode == "list" and len(c) > 1:
                continue
            else:
                defs.append('<style xml:id="s_%s" %s/>' % (c, " ".join('%s="%s"' % COMBO[x][:2] for x in c)))
        return render.dfxp_doc([("en-US", [('begin="00:00:01.000" end="00:00:02.000"', body)])],
                               head="<styling>%s</styling>" % "".join(defs))
    css = "\n".join("%ss_%s {%s}" % ("#" if mode == "id" else ".", c, " ".join("%s: %s;" % COMBO[x][2:] for x in c)) for c in combos)
    if mode in ("id", "two"):
        css += "\n.tint {color: yellow;}\n.loud {font-size: 120%;}"
    doc = render.sami_doc([("ENCC", "en-US")], [("1000", [("ENCC", body)]), ("2000", [("ENCC", "&nbsp;")])])
    return doc.replace("-->", css + "\n-->", 1)


def _tag_doc_from_nodes(nodes):
    """the node stream as a SAMI document that spells its spans <i> / <b> / <u> (innermost last)"""
    from . import render
    out = []
    for n in nodes:
        if n["t"] == "T":
            out.append(_esc("".join(chr(c) for c in n["s"])))
        elif n["t"] == "BR":
            out.append("<br>")
        elif n["on"]:
            out.append("".join("<%s>" % x for x in sorted(n["st"])))
        else:
            out.append("".join("</%s>" % x for x in sorted(n["st"], reverse=True)))
    return render.sami_doc([("ENCC", "en-US")], [("1000", [("ENCC", "".join(out))]), ("2000", [("ENCC", "&nbsp;")])])


def _doc_from_nodes(nodes, kind):
    """the node stream as a SAMI / DFXP document of the harness's own making, with every property of a
    span spelled out - also the ones that are off (font-style:normal, font-weight:normal,
    text-decoration:none)"""
    from . import render
    out = []
    for n in nodes:
        if n["t"] == "T":
            out.append(_esc("".join(chr(c) for c in n["s"])))
        elif n["t"] == "BR":
            out.append("<br/>")
        elif n["on"]:
            i, b, u = "i" in n["st"], "b" in n["st"], "u" in n["st"]
            if kind == "SAMI":
                out.append('<span style="font-style:%s;font-weight:%s;text-decoration:%s;">' % (
                    "italic" if i else "normal", "bold" if b else "normal", "underline" if u else "none"))
            else:
                # "off" for underline is spelled noUnderline in TTML ("none" is valid too): alternate
                out.append('<span tts:fontStyle="%s" tts:fontWeight="%s" tts:textDecoration="%s">' % (
                    "italic" if i else "normal", "bold" if b else "normal",
                    "underline" if u else ("noUnderline" if len(out) % 2 else "none")))
        else:
            out.append("</span>")
    body = "".join(out)
    if kind == "SAMI":
        return render.sami_doc([("ENCC", "en-US")], [("1000", [("ENCC", body)]), ("2000", [("ENCC", "&nbsp;")])])
    return render.dfxp_doc([("en-US", [('begin="00:00:01.000" end="00:00:02.000"', body)])])


def _resolved(content, cs, depth):
    """the rules a style node stands for: its own, and - when the caption set is given - those of
    the classes it names (a class may name further classes)"""
    if not isinstance(content, dict):
        return {}
    out = {}
    if cs is not None and depth < 8:
        names = content.get("classes") or ([content["class"]] if content.get("class") else [])
        for name in names:
            for k, v in _resolved(dict(cs.get_style(name)), cs, depth + 1).items():
                out.setdefault(k, v)
    for k, v in content.items():
        if k not in ("class", "classes"):
            out[k] = v
    return out


def project_nodes(caption, cs=None, outer_too=True):
    """cs given: a caption that is italic / bold / underlined as a whole (its own style or the class it
    names) is projected with an enclosing span"""
    from pycaption import CaptionNode
    out = []
    outer = []
    if cs is not None and outer_too:
        st = dict(caption.style or {})
        cls = st.get("class")
        resolved = dict(cs.get_style(cls)) if cls else {}
        resolved.update({k: v for k, v in st.items() if k != "class"})
        outer = [k for k, name in KEY.items() if resolved.get(name)]
    if outer:
        inner = project_nodes(caption, cs, False)
        return [{"t": "S", "on": True, "st": outer}] + inner + [{"t": "S", "on": False, "st": outer}]
    for n in caption.nodes:
        if n.type_ == CaptionNode.TEXT:
            out.append({"t": "T", "s": [ord(c) for c in n.content]})
        elif n.type_ == CaptionNode.BREAK:
            out.append({"t": "BR"})
        elif n.type_ == CaptionNode.STYLE:
            st = [k for k, name in KEY.items() if _resolved(n.content, cs, 0).get(name)]
            out.append({"t": "S", "on": bool(n.start), "st": st})
    return out


class _SamiTok(HTMLParser):
    def __init__(self):
        super().__init__(convert_charrefs=True)
        self.ps = []
        self.cur = None

    def handle_starttag(self, tag, attrs):
        a = dict(attrs)
        if tag == "p":
            self.cur = []
            self.ps.append(self.cur)
        elif self.cur is None:
            return
        elif tag == "br":
            self.cur.append({"k": "br"})
        elif tag in ("span", "i", "b", "u", "div"):
            st = set()
            if tag in ("i", "b", "u"):
                st.add(tag)
            css = (a.get("style") or "").replace(" ", "").lower()
            for cls in (a.get("class") or "").lower().split():
                css += ";" + getattr(self, "rules", {}).get(cls, "")
            if "font-style:italic" in css:
                st.add("i")
            if "font-weight:bold" in css:
                st.add("b")
            if "text-decoration:underline" in css:
                st.add("u")
            self.cur.append({"k": "open", "st": sorted(st), "n": "span" if tag == "div" else tag})

    def handle_startendtag(self, tag, attrs):
        if tag == "br" and self.cur is not None:
            self.cur.append({"k": "br"})

    def handle_endtag(self, tag):
        if tag == "p":
            self.cur = None
        elif self.cur is not None and tag in ("span", "i", "b", "u", "div"):
            self.cur.append({"k": "close", "n": "span" if tag == "div" else tag})

    def handle_data(self, data):
        if self.cur is not None:
            self.cur.append({"k": "text", "s": [ord(c) for c in data]})


def _dfxp_chain(el, styles_by_id, depth=0):
    """the element and every style it refers to (style="a b"), transitively"""
    out = [el]
    if depth < 8:
        for ref in (el.get("style") or "").split():
            if ref in styles_by_id:
                out += _dfxp_chain(styles_by_id[ref], styles_by_id, depth + 1)
    return out


def tokens_dfxp(out):
    root, err = scan.parse_xml_strict(out)
    if root is None:
        return False, []
    p = root.find(".//%sp" % scan.TT)
    toks = []
    styles_by_id = {el.get(scan.XMLNS + "id"): el for el in root.iter(scan.TT + "style")}

    def walk(el):
        if el.text:
            toks.append({"k": "text", "s": [ord(c) for c in el.text]})
        for ch in el:
            if ch.tag == scan.TT + "br":
                toks.append({"k": "br"})
            else:
                st = []
                for el in _dfxp_chain(ch, styles_by_id):
                    if el.get(scan.TTS + "fontStyle") == "italic" and "i" not in st:
                        st.append("i")
                    if el.get(scan.TTS + "fontWeight") == "bold" and "b" not in st:
                        st.append("b")
                    if "underline" in (el.get(scan.TTS + "textDecoration") or "") and "u" not in st:
                        st.append("u")
                toks.append({"k": "open", "st": st, "n": "span"})
                walk(ch)
                toks.append({"k": "close", "n": "span"})
            if ch.tail:
                toks.append({"k": "text", "s": [ord(c) for c in ch.tail]})
    if p is not None:
        walk(p)
        # what the paragraph as a whole carries: its own attributes and the style it refers to
        st = []
        styles = {el.get(scan.XMLNS + "id"): el for el in root.iter(scan.TT + "style")}
        ref = styles.get(p.get("style")) if p.get("style") else None
        for el in (ref, p):
            if el is None:
                continue
            if el.get(scan.TTS + "fontStyle") == "italic" and "i" not in st:
                st.append("i")
        if st:
            toks = [{"k": "open", "st": st, "n": "p"}] + toks + [{"k": "close", "n": "p"}]
    return True, toks


_CSS_RULE = re.compile(r"[.#]([\w-]+)\s*\{([^}]*)\}")


def tokens_sami(out):
    t = _SamiTok()
    t.rules = {}
    m = re.search(r"<style[^>]*>(.*?)</style>", out, re.S | re.I)
    if m:
        for name, body in _CSS_RULE.findall(m.group(1)):
            t.rules.setdefault(name.lower(), "")
            t.rules[name.lower()] += body.replace(" ", "").lower() + ";"
    t.feed(out)
    t.close()
    return True, (t.ps[0] if t.ps else [])


_VTT_TAG = re.compile(r"<(/?)([^>]*)>")


def tokens_vtt(out):
    ok, cues = scan.scan_webvtt(out)
    toks = []
    for c in cues:
        if c["timing"] is None:
            continue
        for li, line in enumerate(c["lines"]):
            if li:
                toks.append({"k": "br"})
            # C11 texts are plain letters; the only reference the writer emits is its
            # placeholder for an empty line
            line = line.replace("&nbsp;", "\xa0")
            pos = 0
            for m in _VTT_TAG.finditer(line):
                if m.start() > pos:
                    toks.append({"k": "text", "s": [ord(ch) for ch in line[pos:m.start()]]})
                name = m.group(2).strip()
                if m.group(1):
                    toks.append({"k": "close", "n": name})
                else:
                    toks.append({"k": "open", "st": [name] if name in ("i", "b", "u") else [], "n": name})
                pos = m.end()
            if pos < len(line):
                toks.append({"k": "text", "s": [ord(ch) for ch in line[pos:]]})
    return ok, toks


TOKENISE = {"DFXP": tokens_dfxp, "DFXP-legacy": tokens_dfxp, "DFXP-single": tokens_dfxp, "SAMI": tokens_sami,
            "WebVTT": tokens_vtt}


def execute(inp):
    if inp["k"] == "balanced":
        if "scc" in inp:
            from . import sccgen
            kind = "SCC"
            text, _ = sccgen.render_program(inp["scc"], inp["doubled"])
        else:
            kind, text = corpus.docs()[inp["doc"]]
        cs = READERS[kind]().read(text)
        caps = []
        for lg in cs.get_languages():
            for c in cs.get_captions(lg):
                caps.append(project_nodes(c))
        return {"k": "balanced", "caps": caps}
    if inp.get("src") == "SAMI-tags":
        cs = READERS["SAMI"]().read(_tag_doc_from_nodes(inp["nodes"]))
    elif inp.get("sg"):
        from . import render
        doc = render.dfxp_doc([("en-US", [('begin="00:00:01.000" end="00:00:02.000"',
                                           'a <span style="s_%s">bb</span>' % inp["sg"]["target"])])],
                              head="<styling>%s</styling>" % inp["sg"]["defs"])
        cs = READERS["DFXP"]().read(doc)
    elif inp.get("src") in ("SAMI", "DFXP") and inp.get("refs"):
        cs = READERS[inp["src"]]().read(_ref_doc_from_nodes(inp["nodes"], inp["src"], inp["refs"]))
    elif inp.get("src") in ("SAMI", "DFXP"):
        cs = READERS[inp["src"]]().read(_doc_from_nodes(inp["nodes"], inp["src"]))
    else:
        cs = _set_from_nodes(inp["inner"] if inp.get("capclass") else inp["nodes"], inp.get("capclass", False))
    hops = []
    for w in inp["route"]:
        fmt = "DFXP" if w.startswith("DFXP") else w
        hop = {"fmt": fmt, "wf": False, "toks": [], "reads": False, "back": []}
        try:
            out = WRITERS[w]().write(cs)
            hop["wf"], hop["toks"] = TOKENISE[w](out)
            if w in READER_OF:
                cs = READERS[READER_OF[w]]().read(out)
                lg = cs.get_languages()[0]
                caps = cs.get_captions(lg)
                hop["reads"] = True
                hop["back"] = [n for c in caps for n in project_nodes(c, cs if (inp.get("capclass") or inp.get("refs")) else None,
                                                                       bool(inp.get("capclass")))]
        except Exception as e:
            hop["err"] = type(e).__name__ + ": " + str(e)[:200]
            hop["wf"] = False
            hops.append(hop)
            break
        hops.append(hop)
    return {"k": "spans", "nodes": inp["nodes"], "hops": hops}


def signature(inp, rec, clause):
    sig = {"clause": clause.split("@")[0]}
    if "@" in clause:
        sig["route"] = clause.split("@")[1]
    if inp.get("refs"):
        sig["refs"] = inp["src"] + ":" + inp["refs"].replace("chain-rev", "chain")
        if inp["refs"] == "chain-rev":
            sig["forward_refs"] = True
        sig["multi"] = any(len(n["st"]) > 1 for n in inp["nodes"] if n["t"] == "S")
    return sig


def nontrivial(inp, rec):
    if inp["k"] == "balanced":
        return inp["id"]
    if any(n["t"] == "S" for n in inp["nodes"]):
        return [inp["route"], inp["nodes"]]
    return None


def corrupt(inp, rec):
    import copy
    if rec["k"] != "spans" or not rec["hops"] or not rec["hops"][0]["wf"]:
        return []
    out = []
    toks = rec["hops"][0]["toks"]
    carried = {"i"} if rec["hops"][0]["fmt"] == "DFXP" else {"i", "b", "u"}
    # an opening tag that carries a style and is directly followed by visible text
    for k, t in enumerate(toks[:-1]):
        nxt = toks[k + 1]
        if t["k"] == "open" and set(t["st"]) & carried and nxt["k"] == "text" and \
                any(c not in (32, 9, 10, 13, 160) for c in nxt["s"]):
            c = copy.deepcopy(rec)
            c["hops"][0]["toks"][k]["st"] = []
            out.append(c)
            c = copy.deepcopy(rec)
            del c["hops"][0]["toks"][k]
            out.append(c)
            break
    return out
