"""C09  Writing never alters its input and is deterministic."""
import random

from . import histories, session, tlc

PID = "C09"
TRACE = "Trace_Session"
FORK_PER_INPUT = True
WRITE_BIAS = True
OWN = ("Write",)
RULE = ("(G) every history of MC_Session (all sequences of <= 3 quick / 4 thorough operations over 2 reader objects, "
        "2 documents, 2 writer objects, <= 2-3 sets) replayed under five casts of real readers, documents, API-built "
        "sets (balanced, unclosed span, px layout that makes writers raise) and writers; (T) random histories of 12-20 "
        "steps over 14 documents, 5 built sets, 8 writers x option sets, reused and fresh objects. After every step the "
        "digest of every live set and of every output is recorded; references come from a fresh interpreter per term "
        "under other hash seeds. non-trivial = a history with a write after another write or edit; distinct by history")
ASSUMPTIONS = ["set equality is equality of a canonical structural dump (languages, times as exact fractions, nodes, styles, layouts)",
               "Read / Edit clauses belong to C10 and are ignored here (C10's check runs the same machinery)"]


def model_runs(ctx):
    res = tlc.run("MC_Session", cfg="MC_Session_main" if ctx.quick else "MC_Session_main4")
    ctx.add_tlc(res, "design model of the object graph (repaired code): Isolation and OutputsAreFunctions on all histories")
    ctx._cases = res.cases()
    ctx.extra["exhaustive"] = True
    ctx.extra["bound"] = "all histories of <= %d operations (2 readers, 2 documents, 2 writers)" % (3 if ctx.quick else 4)


def model_controls(ctx):
    n = 0
    for cfg, inv in (("MC_Session_shared", "Isolation"), ("MC_Session_stash", "Isolation"),
                     ("MC_Session_span", "OutputsAreFunctions")):
        r = tlc.run("MC_Session", cfg=cfg, allow_violation=True, workers=4)
        if r.violated != inv:
            raise tlc.MachineryError("%s: deviation not refuted" % cfg)
        ctx.add_tlc(r, "negative control: %s refuted" % cfg)
        n += 1
    return n


def _inputs(ctx, mod):
    rng = random.Random(ctx.seed * 122949829 + (9 if mod.WRITE_BIAS else 10))
    ins = []
    n = 0
    casts = list(histories.CASTS)
    for k, c in enumerate(ctx._cases):
        for cast in (casts if not ctx.quick else [casts[k % len(casts)], casts[(k + 2) % len(casts)]]):
            ops = histories.concretise(c["ops"], cast)
            ins.append({"id": "g%d" % n, "ops": ops, "cast": cast})
            n += 1
    # every ordered pair of sets through one shared writer object (write A, write B, write A),
    # for every writer configuration: state carried from one write into the next
    pool = [("build", "b_plain"), ("build", "b_styled"), ("build", "b_unclosed"), ("build", "b_px"), ("build", "b_multi"),
            ("DFXP", "dfxp2"), ("SAMI", "sami4"), ("WebVTT", "vtt2"), ("SCC", "scc2"),
            ("build", "b_textalign"), ("SAMI", "sami_ta"), ("DFXP", "dfxp_ta"), ("build", "b_nodelayouts"),
            ("build", "b_empty"), ("DFXP", "dfxp_sloppy"), ("build", "b_unclosed_px"), ("build", "b_richspan")]

    def mk(item):
        return {"op": "build", "desc": item[1]} if item[0] == "build" else \
            {"op": "read", "reader": "P-" + item[1], "kind": item[0], "doc": item[1], "fresh": True}
    if mod.WRITE_BIAS:
        pk = 0
        for kind, cfgs in session.WRITER_CONFIGS.items():
            for opts in cfgs:
                for a in pool:
                    for b in pool:
                        if a == b:
                            continue
                        pk += 1
                        if ctx.quick and kind in ("SRT", "MicroDVD", "SCC") and pk % 4:
                            continue
                        w = {"op": "write", "writer": "w", "kind": kind, "opts": opts}
                        ins.append({"id": "p%d" % pk, "cast": "pairs", "ops": [
                            mk(a), mk(b), dict(w, set="s1"), dict(w, set="s2"), dict(w, set="s1")]})
        # one writer object writes a set, the set is edited in place, the same object writes it again:
        # nothing the first write remembered may show in the second
        pk = 0
        for kind, cfgs in session.WRITER_CONFIGS.items():
            for opts in cfgs:
                for a in pool:
                    if a[1] in ("b_empty", "b_px"):
                        continue
                    for edit in ("retime", "node_text", "caption_time", "layout_deep"):
                        pk += 1
                        if ctx.quick and pk % 3:
                            continue
                        w = {"op": "write", "writer": "w", "kind": kind, "opts": opts}
                        ins.append({"id": "e%d" % pk, "cast": "write-edit-write", "ops": [
                            mk(a), dict(w, set="s1"), {"op": "edit", "set": "s1", "edit": edit}, dict(w, set="s1"),
                            {"op": "edit", "set": "s1", "edit": "retime"}, dict(w, set="s1")]})
        # arguments of one write() call (force=, lang=) hold for that call: the same writer object,
        # called without them afterwards, writes what a fresh one writes
        pk = 0
        multi = [("build", "b_multi"), ("DFXP", "dfxp2"), ("SAMI", "sami4"), ("SAMI", "sami1")]
        for kind, arglist in session.WRITE_ARGS.items():
            for opts in session.WRITER_CONFIGS[kind]:
                for args in arglist:
                    for a in multi:
                        pk += 1
                        w = {"op": "write", "writer": "w", "kind": kind, "opts": opts}
                        ins.append({"id": "a%d" % pk, "cast": "call-arguments", "ops": [
                            mk(a), dict(w, set="s1", args=args), dict(w, set="s1"), dict(w, set="s1", args=args), dict(w, set="s1")]})
    else:
        # reader objects made with constructor options, reused over two documents
        from . import corpus as _c0
        for kd, ctors in session.READER_CTOR.items():
            ds = [d for d, (k0, _) in _c0.docs().items() if k0 == kd]
            pk = 0
            for ctor in ctors:
                for a in ds:
                    for b in ds:
                        pk += 1
                        if ctx.quick and pk % 2:
                            continue
                        rd = lambda d: {"op": "read", "reader": "shared", "kind": kd, "doc": d, "ctor": ctor}
                        ins.append({"id": "c%s%d" % (kd, pk), "cast": "reader-options", "ops": [rd(a), rd(b), rd(a)]})
        # every ordered pair of documents of one format through one shared reader object
        from . import corpus
        kinds = {}
        for d, (kd, _) in corpus.docs().items():
            kinds.setdefault(kd, []).append(d)
        pk = 0
        for kd, ds in kinds.items():
            for a in ds:
                for b in ds:
                    pk += 1
                    rd = lambda d: {"op": "read", "reader": "shared", "kind": kd, "doc": d}
                    ins.append({"id": "p%d" % pk, "cast": "pairs", "ops": [
                        rd(a), rd(b), {"op": "edit", "set": "s1", "edit": "add_style"},
                        {"op": "edit", "set": "s2", "edit": "caption_style"}, rd(a), rd(b)]})
                    # in-place edits of what the first result holds (geometry objects, rule dictionaries):
                    # neither the other result nor a later read, by this or a fresh reader, may change
                    fr = lambda d: {"op": "read", "reader": "other", "kind": kd, "doc": d, "fresh": True}
                    ins.append({"id": "q%d" % pk, "cast": "pairs", "ops": [
                        rd(a), rd(b), {"op": "edit", "set": "s1", "edit": "layout_deep"},
                        {"op": "edit", "set": "s1", "edit": "style_deep"}, rd(b), fr(a), fr(b)]})
    if not mod.WRITE_BIAS:
        # options given to one read are for that read only: the same reader object, read again with the
        # defaults (and the other way round), returns what a fresh reader returns
        OPTS = {"SCC": [{"simulate_roll_up": True}, {"offset": 1}, {"lang": "fr"}],
                "WebVTT": [{"lang": "fr"}], "SRT": [{"lang": "fr"}], "MicroDVD": [{"lang": "fr"}], "DFXP": [{"lang": "fr"}],
                "SAMI": [{"lang": "fr"}]}
        from . import corpus as _c
        ok = {}
        for d, (kd, _) in _c.readable_docs().items():
            ok.setdefault(kd, []).append(d)
        pk = 0
        for kd, ds in ok.items():
            for o in OPTS.get(kd, []):
                if kd in ("DFXP", "SAMI") and "lang" in o:
                    continue            # these readers take the languages from the document
                for a in ds:
                    for b in ds:
                        pk += 1
                        if ctx.quick and kd != "SCC" and pk % 3:
                            continue
                        rd = lambda d, oo: {"op": "read", "reader": "shared", "kind": kd, "doc": d, "opts": oo}
                        ins.append({"id": "o%d" % pk, "cast": "options", "ops": [rd(a, o), rd(b, {}), rd(a, {}), rd(b, o)]})
    for k in range(150 if ctx.quick else 4000):
        ins.append({"id": "r%d" % k, "ops": histories.random_history(rng, rng.randrange(12, 21), mod.WRITE_BIAS), "cast": "-"})
    # reference values for every term, computed up front in fresh interpreters
    terms = {}
    for i in ins:
        for t in session.terms_of(i["ops"]):
            terms[session.term_key(t)] = t
    missing = [t for k, t in terms.items() if k not in session._PRISTINE]
    session._PRISTINE.update(session.pristine_batch(missing))
    ctx.extra["pristine_terms"] = len(terms)
    return ins


def inputs(ctx):
    import sys
    return _inputs(ctx, sys.modules[__name__])


def execute(inp):
    return {"events": session.run_history(inp["ops"])}


def _sig(inp, rec, clause, own):
    cl = clause.split("@")[0]
    sig = {"clause": cl}
    parts = clause.split(":")
    if len(parts) >= 3:
        sig["op"] = parts[-2]
        sig["kind"] = parts[-1]
    if not cl.startswith(own):
        sig["out_of_scope"] = True
    return sig


def signature(inp, rec, clause):
    return _sig(inp, rec, clause, OWN)


def nontrivial(inp, rec):
    w = [k for k, e in enumerate(rec["events"]) if e["op"] == "write"]
    if len(w) >= 2 or (w and any(e["op"] == "edit" for e in rec["events"][:w[-1]])):
        return inp["id"]
    return None


def corrupt(inp, rec):
    import copy
    out = []
    for k, e in enumerate(rec["events"]):
        if e["op"] == "write" and not e["raised"]:
            c = copy.deepcopy(rec)
            c["events"][k]["out"] = "0" * 16
            out.append(c)
            c = copy.deepcopy(rec)
            c["events"][k]["dumps"][e["set"]] = "f" * 16
            out.append(c)
            break
    return out
