"""C18  Geometry values compare, hash, parse and print consistently."""
import itertools
import random
import re
from fractions import Fraction

from . import tlc
from .num import limbs

PID = "C18"
TRACE = "Trace_Geometry"
RULE = ("parse: (G) every string up to length 4 (quick) / 5 (thorough; length 6 model-checked) over 13 symbols "
        "enumerated by TLC, through Size.from_string, Point.from_xml_attribute and Padding.from_xml_attribute; (T) random "
        "longer strings and valid decimals; pairs: all same-class pairs of a grid exhaustive in units / None-ness / "
        "alignment values plus cross-class pairs; print / re-parse on random decimals; padding shorthand arities 1-4; "
        "receiver immutability. non-trivial = parse verdict not 'reject', or any pair / print / padding / immut case; "
        "distinct by input")
ASSUMPTIONS = ["strings outside the 13-symbol alphabet (newline, Unicode digits) are outside the stated domain",
               "'.5px', '5.px', '+5px', '-0px', '00' are don't-care (the statement does not settle them)"]


def model_runs(ctx):
    cfg = "MC_Geometry" if ctx.quick else "MC_Geometry5"
    res = tlc.run("MC_Geometry", cfg=cfg)
    ctx.add_tlc(res, "size grammar: DFA agrees with the declarative grammar on every string")
    ctx._cases = res.cases()
    ctx.extra["exhaustive"] = True
    ctx.extra["bound"] = "symbol strings of length <= %d over 13 symbols" % (4 if ctx.quick else 5)
    if not ctx.quick:
        r6 = tlc.run("MC_Geometry", cfg="MC_Geometry6", timeout=3000)
        ctx.add_tlc(r6, "size grammar model check at length 6 (not replayed)")


def A_size(v, u):
    f = Fraction(v)
    return {"cls": "size", "n": limbs(f.numerator), "d": limbs(f.denominator), "u": u}


UNITS = ["px", "em", "%", "c", "pt"]
HS = ["left", "center", "right", "start", "end", None]
VS = ["top", "center", "bottom", None]


def _grid(quick):
    sizes = [("size", v, u) for v in ["0", "1", "3/2", "100"] for u in UNITS]
    base = [("size", "0", "px"), ("size", "1", "px"), ("size", "1", "%"), ("size", "3/2", "%")]
    points = [("point", a, b) for a in base for b in base]
    stretches = [("stretch", a, b) for a in base for b in base]
    pp = [None, ("size", "0", "%"), ("size", "1", "%")] if quick else [None, ("size", "0", "%"), ("size", "1", "%"), ("size", "1", "px")]
    paddings = [("padding",) + t for t in itertools.product(pp, repeat=4)]
    aligns = [("align", h, v) for h in HS for v in VS]
    o = [None, points[5], points[6]]
    e = [None, stretches[5], stretches[10]]
    p = [None, paddings[1], paddings[-1]]
    a = [None, aligns[0], aligns[7]]
    layouts = [("layout", w, x, y, z, None) for w in o for x in e for y in p for z in a]
    layouts += [("layout", o[1], e[1], None, a[1], "line:5%"), ("layout", None, None, None, None, "line:5%"),
                ("layout", None, None, None, None, None)]
    return {"size": sizes, "point": points, "stretch": stretches, "padding": paddings,
            "align": aligns, "layout": layouts}


def inputs(ctx):
    rng = random.Random(ctx.seed * 611953 + 18)
    ins = []
    for k, c in enumerate(ctx._cases):
        ins.append({"id": "gp%d" % k, "k": "parse", "s": c["s"], "via": "size"})
        if " " not in c["s"] and c["s"] and (c["c"] != "reject" or not ctx.quick or k % 10 == 0):
            ins.append({"id": "gpp%d" % k, "k": "parse", "s": c["s"], "via": "point"})
            ins.append({"id": "gpd%d" % k, "k": "parse", "s": c["s"], "via": "padding"})
    syms = list("0123456789.+-epxmtc% ")
    for k in range(2000 if ctx.quick else 100000):
        if rng.random() < 0.5:
            s = [rng.choice(syms) for _ in range(rng.randrange(5, 13))]
        else:
            s = list(str(rng.randrange(10 ** rng.randrange(1, 9))))
            if rng.random() < 0.6:
                s += ["."] + list("%0*d" % (rng.randrange(1, 7), rng.randrange(1000000)))[:rng.randrange(1, 7)]
            s += list(rng.choice(UNITS + ["", "p", "e", "pxx", " px"]))
            if rng.random() < 0.1:
                s = [rng.choice("+- 0")] + s
        ins.append({"id": "rp%d" % k, "k": "parse", "s": s, "via": rng.choice(["size", "size", "point", "padding"]) if " " not in s and s else "size"})
    g = _grid(ctx.quick)
    n = 0
    for cls, vals in g.items():
        for a, b in itertools.product(vals, repeat=2):
            ins.append({"id": "pr%d" % n, "k": "pair", "a": a, "b": b})
            n += 1
    allv = [v for vals in g.values() for v in vals]
    for _ in range(500 if ctx.quick else 5000):
        ins.append({"id": "pr%d" % n, "k": "pair", "a": rng.choice(allv), "b": rng.choice(allv)})
        n += 1
    # the same value obtained in different ways - built from numbers, parsed from text (two spellings),
    # produced by relativizing - compares and hashes alike; different values stay different
    hows = [("built", "parsed"), ("parsed", "parsed0"), ("built", "relativized"), ("parsed", "relativized"), ("parsed", "built")]
    for k, v in enumerate(allv):
        if v[0] == "align":
            continue
        for ha, hb in (hows if not ctx.quick else [hows[k % len(hows)], hows[(k + 2) % len(hows)]]):
            ins.append({"id": "pr%d" % n, "k": "pair", "a": v, "b": v, "ha": ha, "hb": hb})
            n += 1
    for _ in range(400 if ctx.quick else 5000):
        a = rng.choice(allv)
        b = rng.choice([x for x in allv if x[0] == a[0]])
        ha, hb = rng.choice(hows)
        ins.append({"id": "pr%d" % n, "k": "pair", "a": a, "b": b, "ha": ha, "hb": hb})
        n += 1
    # values that differ only from some decimal on (an equality that compares printed or rounded
    # values calls them equal), alone and inside every composite
    near = []
    for base in ["0", "1", "617/50", "33333/1000", "9999/100", "50"]:
        for delta in ["1/100", "1/250", "1/1000", "1/100000", "1/1000000000"]:
            near.append((base, str(Fraction(base) + Fraction(delta))))
    for u in UNITS:
        for x, y in (near if not ctx.quick else near[::2]):
            a, b = ("size", x, u), ("size", y, u)
            other = ("size", "7", u)
            for A, B in ((a, b), (("point", a, other), ("point", b, other)), (("point", other, a), ("point", other, b)),
                         (("stretch", a, other), ("stretch", b, other)),
                         (("padding", a, None, None, other), ("padding", b, None, None, other)),
                         (("padding", None, None, a, None), ("padding", None, None, b, None)),
                         (("layout", ("point", a, other), None, None, None, None), ("layout", ("point", b, other), None, None, None, None)),
                         (("layout", None, ("stretch", other, a), None, None, None), ("layout", None, ("stretch", other, b), None, None, None))):
                for P, Q in ((A, B), (B, A), (A, A)):
                    ins.append({"id": "pr%d" % n, "k": "pair", "a": P, "b": Q})
                    n += 1
    for k in range(1500 if ctx.quick else 60000):
        digs = rng.randrange(1, 13)
        ip = rng.randrange(10 ** rng.randrange(0, min(digs, 7) + 1))
        fl = rng.choice([0, 1, 2, 3, 3, 4, 6])
        fp = "%0*d" % (fl, rng.randrange(10 ** fl)) if fl else ""
        if rng.random() < 0.2 and fl >= 3:
            fp = fp[:2] + "5" + "0" * (fl - 3)       # ties
        ins.append({"id": "pt%d" % k, "k": "print", "text": "%d%s%s" % (ip, "." if fp else "", fp), "u": rng.choice(UNITS)})
    # values that are not whole numbers but print as multiples of ten / hundred (trailing zeros belong
    # to the number), and values that print as nothing but zeros
    for k, text in enumerate(["30.000000000000004", "69.99999999999999", "10.0047", "20.003", "99.996", "100.0049", "0.003",
                              "0.004999", "10.5", "100.50", "1000.004", "50.0", "200", "0.10", "10.10", "109.995"]):
        for u in UNITS:
            ins.append({"id": "pz%d%s" % (k, u), "k": "print", "text": text, "u": u})
    pool = [("size", v, u) for v in ["0", "1", "2", "5/2", "7"] for u in UNITS]
    for k in range(200 if ctx.quick else 3000):
        ins.append({"id": "pd%d" % k, "k": "padding", "sizes": [rng.choice(pool) for _ in range(rng.randrange(1, 5))]})
    for k, v in enumerate(allv):
        if v[0] != "align":
            ins.append({"id": "im%d" % k, "k": "immut", "v": v})
    # magnitudes that take every branch of relativizing and fitting: origin + extent beyond the
    # safe area on either axis, exactly on it, inside it; with and without extent / padding
    mags = ["0", "5", "10", "35", "60", "80", "85", "90", "95", "100"]
    n = len(allv)
    for u in (["%", "px"] if ctx.quick else ["%", "px", "c", "em", "pt"]):
        pts = [(a, b) for a in mags for b in mags]
        sel = pts if not ctx.quick else [pts[i] for i in range(0, len(pts), 3)]
        for (ox, oy) in sel:
            for (ex, ey) in [(None, None), ("80", "80"), ("80", "10"), ("10", "80"), ("55", "70"), ("5", "5")]:
                for pad in (None, ("padding",) + (("size", "5", u),) * 4):
                    v = ("layout", ("point", ("size", ox, u), ("size", oy, u)),
                         None if ex is None else ("stretch", ("size", ex, u), ("size", ey, u)), pad, None, None)
                    ins.append({"id": "im%d" % n, "k": "immut", "v": v})
                    n += 1
    return ins


def _mk(v, how="built"):
    """how: "built" (numbers handed to the constructors), "parsed" (every size through Size.from_string,
    spelled as a plain decimal), "parsed0" (the same with a trailing ".0" / extra zero), "relativized"
    (percent sizes obtained from as_percentage_of of an equal px value on a 100 px reference)"""
    from pycaption.geometry import (Alignment, HorizontalAlignmentEnum, Layout, Padding, Point, Size,
                                    Stretch, UnitEnum, VerticalAlignmentEnum)
    if v is None:
        return None
    c = v[0]
    if c == "size":
        f = Fraction(v[1])
        if how in ("parsed", "parsed0"):
            text = str(f.numerator) if f.denominator == 1 else repr(float(f))
            if "e" in text or "E" in text:
                return Size(float(f), UnitEnum(v[2]))
            if how == "parsed0":
                text = text + (".0" if "." not in text else "0")
            return Size.from_string(text + v[2])
        if how == "relativized" and v[2] == "%" and f.denominator in (1, 2, 4):
            return Size(float(f), UnitEnum.PIXEL).as_percentage_of(video_width=100)
        return Size(float(f), UnitEnum(v[2]))
    if c == "point":
        return Point(_mk(v[1], how), _mk(v[2], how))
    if c == "stretch":
        return Stretch(_mk(v[1], how), _mk(v[2], how))
    if c == "padding":
        return Padding(before=_mk(v[1], how), after=_mk(v[2], how), start=_mk(v[3], how), end=_mk(v[4], how))
    if c == "align":
        return Alignment(HorizontalAlignmentEnum(v[1]) if v[1] else None,
                         VerticalAlignmentEnum(v[2]) if v[2] else None)
    if c == "layout":
        return Layout(origin=_mk(v[1], how), extent=_mk(v[2], how), padding=_mk(v[3], how), alignment=_mk(v[4], how),
                      webvtt_positioning=v[5])
    raise ValueError(c)


def _abs(v):
    if v is None:
        return {"cls": "none"}
    c = v[0]
    if c == "size":
        return A_size(v[1], v[2])
    if c == "point":
        return {"cls": "point", "x": _abs(v[1]), "y": _abs(v[2])}
    if c == "stretch":
        return {"cls": "stretch", "h": _abs(v[1]), "v": _abs(v[2])}
    if c == "padding":
        return {"cls": "padding", "b": _abs(v[1]), "a": _abs(v[2]), "s": _abs(v[3]), "e": _abs(v[4])}
    if c == "align":
        return {"cls": "align", "h": v[1] or "none", "v": v[2] or "none"}
    if c == "layout":
        return {"cls": "layout", "o": _abs(v[1]), "e": _abs(v[2]), "p": _abs(v[3]), "a": _abs(v[4])}


def _obs_size(sz):
    f = Fraction(sz.value)
    return {"n": limbs(f.numerator), "d": limbs(f.denominator), "u": sz.unit.value}


_PRINTED = re.compile(r"^(\d+)(?:\.(\d+))?(px|em|%|c|pt)$")


def execute(inp):
    from pycaption.exceptions import CaptionReadSyntaxError
    from pycaption.geometry import Padding, Point, Size, UnitEnum
    k = inp["k"]
    if k == "parse":
        text = "".join(inp["s"])
        rec = {"k": "parse", "s": inp["s"]}
        try:
            if inp["via"] == "size":
                sz = Size.from_string(text)
            elif inp["via"] == "point":
                sz = Point.from_xml_attribute(text + " 5px").x
            else:
                sz = Padding.from_xml_attribute(text).before
            rec["o"] = "ok"
            rec["v"] = _obs_size(sz)
        except CaptionReadSyntaxError:
            rec["o"] = "syntax"
        except Exception as e:
            rec["o"] = "other:" + type(e).__name__
        return rec
    if k == "pair":
        a, b = _mk(inp["a"], inp.get("ha", "built")), _mk(inp["b"], inp.get("hb", "built"))
        return {"k": "pair", "a": _abs(inp["a"]), "b": _abs(inp["b"]), "eq": bool(a == b), "sym": bool(b == a),
                "ne": bool(a != b), "heq": hash(a) == hash(b)}
    if k == "print":
        sz = Size(inp["text"], UnitEnum(inp["u"]))
        printed = str(sz)
        m = _PRINTED.match(printed)
        f = Fraction(sz.value)
        rec = {"k": "print", "v": {"n": limbs(f.numerator), "d": limbs(f.denominator)}, "u": inp["u"],
               "plain": bool(m), "ip": [], "fp": [], "pu": "", "again": False}
        if m:
            rec["ip"] = [int(c) for c in m.group(1)]
            rec["fp"] = [int(c) for c in (m.group(2) or "")]
            rec["pu"] = m.group(3)
            try:
                rec["again"] = str(Size.from_string(printed)) == printed and sz.to_xml_attribute() == printed
            except Exception:
                rec["again"] = False
        return rec
    if k == "padding":
        objs = [_mk(s) for s in inp["sizes"]]
        text = " ".join(str(o) for o in objs)
        rec = {"k": "padding", "sizes": [_abs(s) for s in inp["sizes"]]}
        try:
            p = Padding.from_xml_attribute(text)
            rec["o"] = "ok"
            rec["obs"] = {"b": dict(_obs_size(p.before), cls="size"), "a": dict(_obs_size(p.after), cls="size"),
                          "s": dict(_obs_size(p.start), cls="size"), "e": dict(_obs_size(p.end), cls="size")}
        except Exception as e:
            rec["o"] = "err:" + type(e).__name__
        return rec
    if k == "immut":
        o = _mk(inp["v"])
        before = repr(o.serialized())
        after = ""
        outs = []
        for op in ("as_percentage_of", "fit_to_screen", "chain", "observers"):
            try:
                if op == "as_percentage_of":
                    if inp["v"][0] == "size":
                        o.as_percentage_of(video_width=640)
                    else:
                        o.as_percentage_of(640, 360)
                elif op == "chain":
                    # the relativized value is a receiver too
                    r = o.as_percentage_of(video_width=640) if inp["v"][0] == "size" else o.as_percentage_of(640, 360)
                    rb = repr(r.serialized())
                    before += rb
                    after += rb
                    outs.append("value" if type(r) is type(o) else "raise:WrongType")
                    if hasattr(r, "fit_to_screen"):
                        try:
                            f = r.fit_to_screen()
                            outs.append("value" if type(f) is type(o) else "raise:WrongType")
                        except Exception as e:
                            outs.append("raise:" + type(e).__name__)
                            raise
                        finally:
                            after = after[:-len(rb)] + repr(r.serialized())
                elif op == "observers":
                    hash(o), o == o, bool(o), str(o), repr(o)
                    for name in ("is_relative", "is_valid", "to_xml_attribute"):
                        if hasattr(o, name):
                            getattr(o, name)()
                elif hasattr(o, op):
                    getattr(o, op)()
            except Exception as e:
                if op == "chain" and not outs:
                    outs.append("raise:" + type(e).__name__)
        return {"k": "immut", "before": before, "after": repr(o.serialized()) + after, "outs": outs}
    raise ValueError(k)


def signature(inp, rec, clause):
    sig = {"clause": clause.split(" ")[0], "k": rec["k"]}
    if rec["k"] == "parse":
        sig["via"] = inp["via"]
    return sig


def nontrivial(inp, rec):
    if rec["k"] == "parse":
        return "".join(inp["s"]) + "|" + inp["via"] if rec["o"] != "syntax" else None
    return inp["id"]


def corrupt(inp, rec):
    import copy
    c = copy.deepcopy(rec)
    k = rec["k"]
    if k == "parse":
        if rec["o"] == "ok":
            c["v"]["n"] = limbs(1 + sum(x * 10000 ** i for i, x in enumerate(rec["v"]["n"])))
            return [c, dict(rec, o="syntax")]
        return []
    if k == "pair":
        return [dict(rec, eq=not rec["eq"]), dict(rec, ne=not rec["ne"])] + ([dict(rec, heq=False)] if rec["eq"] else [])
    if k == "print":
        if rec["plain"]:
            c["ip"] = rec["ip"][:-1] + [(rec["ip"][-1] + 1) % 10]
            return [c, dict(rec, again=False)]
        return []
    if k == "padding":
        if rec["o"] == "ok" and len(rec["sizes"]) == 4 and rec["obs"]["s"] != rec["obs"]["e"]:
            c["obs"]["s"], c["obs"]["e"] = rec["obs"]["e"], rec["obs"]["s"]
            return [c]
        return []
    if k == "immut":
        return [dict(rec, after=rec["after"] + "x")] + ([dict(rec, outs=rec["outs"][:-1] + ["raise:ValueError"])] if rec["outs"] else [])
    return []
