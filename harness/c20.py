"""C20  Format detection is total, consistent and recognises pycaption's own output."""
import random

from . import build, tlc
from .registry import FORMAT_OF_WRITER, NAME_OF_READER, ORDER, READERS, WRITERS

PID = "C20"
TRACE = "Trace_Detect"
RULE = ("(G) every token string up to the bound over {digit, letter, NL, '{', '}', '-->', space, "
        "WEBVTT, <sami, </tt>, SCC header} enumerated by TLC (MC_Detect) and rendered; (T) random longer "
        "token strings, Latin-1 noise, every truncation and random splices of valid documents, 22 envelope characters "
        "(BOM, white space, separators, NUL, case-folding specials) before / after / around / alone with marker strings and documents, and "
        "writer outputs; non-trivial = at least one reader's own detect accepts or raises, or a "
        "writer output; distinct by the rendered string")
ASSUMPTIONS = ["the six Reader().detect results are observed through the public API in-process",
               "token rendering uses one representative character per class ('7', 'a')"]

REND = {"D": "7", "L": "a", "NL": "\n", "LB": "{", "RB": "}", "AR": "-->", "SP": " ",
        "WV": "WEBVTT", "SA": "<sami", "TT": "</tt>", "SC": "Scenarist_SCC V1.0"}

WORDS = ["alpha", "beta", "gamma", "delta", "one", "two", "Hello", "world", "snow", "rain",
         "it's", "fine", "42", "7", "ok", "yes", "no", "maybe"]


def model_runs(ctx):
    n = 4 if ctx.quick else 6
    res = tlc.run("MC_Detect", cfg="MC_Detect", env=None,
                  extra=[], timeout=1800) if n == 4 else tlc.run("MC_Detect", cfg="MC_Detect6", timeout=3000)
    ctx.add_tlc(res, "design model of the six sniffers meets the requirement on every token string of length <= %d" % n)
    ctx.extra["exhaustive"] = True
    ctx.extra["bound"] = "token strings of length <= %d over 11 tokens" % n
    ctx._cases = res.cases()


def model_controls(ctx):
    # the design model with the unguarded SRT sniffer must be refuted by TLC
    r = tlc.run("MC_Detect", cfg="MC_Detect_neg", allow_violation=True, workers=4)
    if r.violated != "ModelMeetsRequirement":
        raise tlc.MachineryError("MC_Detect_neg: TLC did not refute the unguarded SRT sniffer")
    ctx.add_tlc(r, "negative control: unguarded SRT sniffer refuted")
    return 1


def _shape_sets():
    """cue shapes a writer's own reader must take back: cues shorter than a MicroDVD frame and of zero
    length, rows of exactly 31 / 32 / 33 / 47 / 64 characters (SCC wraps at 32), many rows"""
    out = []
    for s, e in ((6_000_000, 6_030_000), (6_000_000, 6_000_000), (6_039_000, 6_041_000), (5_000_000, 5_000_001)):
        out.append(build.simple_set([(3_000_000, 4_500_000, ["before"]), (s, e, ["flash"]), (9_000_000, 10_500_000, ["after"])]))
    word = "abcdefghij"
    for n in (31, 32, 33, 47, 64):
        line = (" ".join([word] * 8))[:n].rstrip() if n != 32 else "abcdefghij abcdefghij abcdefghijk"
        out.append(build.simple_set([(5_000_000, 7_000_000, [line]), (9_000_000, 11_000_000, ["x" * 32]),
                                     (13_000_000, 15_000_000, ["one", "two", "three", "four"])]))
    # cue texts that look like the syntax of one of the formats (a writer has to escape or keep them so
    # that its own reader still takes the document), and empty / blank lines inside a cue
    looks = [["{laughs}"], ["{}"], ["{y:i}"], ["{1}{2}"], ["[music]"], ["12"], ["1"], ["Final score", "", "12"],
             ["Final score", " ", "12"], ["", "x"], ["x", ""], ["a|b"], ["|"], ["-->"], ["00:00:01,000 --> 00:00:02,000"],
             ["00:01.000 --> 00:02.000"], ["NOTE this"], ["<i>"], ["</i>"], ["<b>bold</b>"], ["&amp;"], ["&"],
             ["<SYNC Start=100>"], ["<p>"], ["]]>"], ["<!--"], ["{10}{20}x"], ["2", "3"]]
    for k, lines in enumerate(looks):
        out.append(build.simple_set([(5_000_000, 7_000_000, lines)]))
        out.append(build.simple_set([(2_000_000, 4_000_000, ["first"]), (5_000_000, 7_000_000, lines), (9_000_000, 11_000_000, ["last"])]))
    return out


def _sample_sets(rng, n):
    out = []
    for _ in range(n):
        cues = []
        t = rng.randrange(2_000_000, 4_000_000)
        for _ in range(rng.randrange(1, 4)):
            d = rng.randrange(1_500_000, 3_000_000)
            lines = [" ".join(rng.choice(WORDS) for _ in range(rng.randrange(1, 4)))
                     for _ in range(rng.randrange(1, 3))]
            cues.append((t, t + d, lines))
            t += d + rng.randrange(3_000_000, 6_000_000)
        out.append(build.simple_set(cues))
    return out


def inputs(ctx):
    rng = random.Random(ctx.seed * 7919 + 20)
    ins = []
    for k, c in enumerate(ctx._cases):
        ins.append({"id": "g%d" % k, "kind": "probe", "toks": c["toks"]})
    n_rand = 3000 if ctx.quick else 60000
    toks = list(REND)
    for k in range(n_rand):
        ln = rng.randrange(5, 25)
        ins.append({"id": "r%d" % k, "kind": "probe",
                    "toks": [rng.choice(toks) for _ in range(ln)]})
    for k in range(300 if ctx.quick else 5000):
        ln = rng.randrange(1, 40)
        ins.append({"id": "n%d" % k, "kind": "probe", "text": "".join(
            chr(rng.choice([rng.randrange(1, 256), 10, 13, 0x7b, 0x7d, 0x31, 0x2d, 0x3e, 0x85, 0x2028]))
            for _ in range(ln))})
    nrand = 6 if ctx.quick else 40
    sets = _sample_sets(rng, nrand) + _shape_sets()
    docs = []
    for k, s in enumerate(sets):
        if k >= nrand:
            for w in WRITERS:
                ins.append({"id": "w%d-%s" % (k, w), "kind": "self", "writer": w, "set": s})
            continue
        for w in WRITERS:
            ins.append({"id": "w%d-%s" % (k, w), "kind": "self", "writer": w, "set": s})
            if k < (2 if ctx.quick else 8):
                docs.append(_write(w, s))
    # truncations at every position, and splices of two documents
    step = 1
    for d, doc in enumerate(docs):
        lim = len(doc) if not ctx.quick else min(len(doc), 400)
        for cut in range(0, lim + 1, step):
            ins.append({"id": "t%d-%d" % (d, cut), "kind": "probe", "text": doc[:cut]})
    for k in range(200 if ctx.quick else 3000):
        a, b = rng.choice(docs), rng.choice(docs)
        ins.append({"id": "s%d" % k, "kind": "probe",
                    "text": a[:rng.randrange(len(a) + 1)] + b[rng.randrange(len(b) + 1):]})
    # long inputs: the deciding marker at the start, in the middle, at the end of documents of 1 k to
    # 200 k characters (a probe that looks at a window of its input answers for another string)
    filler_srt = "".join("%d\n00:%02d:%02d,000 --> 00:%02d:%02d,500\nline %d\n\n" % (k + 1, k // 60, k % 60, k // 60, k % 60, k)
                         for k in range(3000))
    filler_txt = "lorem ipsum dolor sit amet " * 8000
    n = 0
    for size in (1000, 5000, 20000, 200000):
        for marker in ("WEBVTT", "<sami>", "</tt>", "{1}{2}x", "-->"):
            for base in (filler_srt[:size], filler_txt[:size], "Scenarist_SCC V1.0\n\n" + filler_txt[:size]):
                for where in ("start", "middle", "end", "none"):
                    if where == "none" and marker != "WEBVTT":
                        continue
                    mid = len(base) // 2
                    text = {"start": marker + "\n" + base, "middle": base[:mid] + "\n" + marker + "\n" + base[mid:],
                            "end": base + "\n" + marker + "\n", "none": base}[where]
                    ins.append({"id": "L%d" % n, "kind": "probe", "text": text})
                    n += 1
    # envelopes: characters that code likes to strip, fold or split on, put before, after and
    # around strings the sniffers care about (and alone): a probe that pre-processes its input
    # (strip, lstrip of a byte order mark, case folding, newline normalisation) answers for a
    # different string than the readers' own detect
    bases = ["", "7", "7\n", "7\n00:00:01,000 --> 00:00:02,000\na\n", "{1}{2}a", "{1}{2}", "WEBVTT", "WEBVTT\n\n",
             "<sami", "<SAMI>", "</tt>", "</TT>", "Scenarist_SCC V1.0", "Scenarist_SCC V1.0\n\n00:00:01:00\t9420",
             "webvtt", "scenarist_scc v1.0", "a"] + docs[:6 if ctx.quick else len(docs)]
    n = 0
    for b in bases:
        for e in ENVELOPE:
            for text in (e + b, b + e, e + b + e, e + e + b, e + "\n" + b):
                if text:
                    ins.append({"id": "e%d" % n, "kind": "probe", "text": text})
                    n += 1
    return ins


ENVELOPE = ["\ufeff", " ", "\t", "\r", "\n", "\r\n", "\xa0", "\x00", "\x0b", "\x0c", "\x1c", "\x1d", "\x1e", "\x85",
            "\u2028", "\u2029", "\u200b", "\u3000", "\ufffe", "\ufffd", "\u0130", "\u017f"]


def _write(w, s):
    return WRITERS[w]().write(build.caption_set(s))


def _probe(text):
    import pycaption
    outs = []
    for name in ORDER:
        try:
            outs.append("accept" if READERS[name]().detect(text) else "reject")
        except Exception:
            outs.append("raise")
    try:
        r = pycaption.detect_format(text)
        result = "none" if r is None else NAME_OF_READER.get(r, "other:" + getattr(r, "__name__", "?"))
    except Exception as e:
        result = "raise:" + type(e).__name__
    return {"kind": "probe", "empty": text == "", "outs": outs, "result": result}


def execute(inp):
    import pycaption
    if inp["kind"] == "probe":
        text = inp["text"] if "text" in inp else "".join(REND[t] for t in inp["toks"])
        return _probe(text)
    doc = _write(inp["writer"], inp["set"])
    fmt = FORMAT_OF_WRITER[inp["writer"]]
    try:
        r = pycaption.detect_format(doc)
        detected = "none" if r is None else NAME_OF_READER.get(r, "other")
    except Exception as e:
        detected = "raise:" + type(e).__name__
    try:
        cs = READERS[fmt]().read(doc)
        ok = not cs.is_empty()
    except Exception:
        ok = False
    return {"kind": "self", "fmt": fmt, "detected": detected, "read": ok}


def signature(inp, rec, clause):
    sig = {"clause": clause.split(" ")[0], "kind": rec["kind"]}
    if rec["kind"] == "probe":
        sig["raising"] = ",".join(ORDER[k] for k, o in enumerate(rec["outs"]) if o == "raise")
        sig["result"] = rec["result"] if rec["result"].startswith("raise") else "-"
    else:
        sig["writer"] = inp["writer"]
        texts = ["".join(n[1] for n in c["nodes"] if n[0] == "t") for lg in inp["set"]["langs"] for c in lg["caps"]]
        if texts and all(t and not t.replace("|", "").strip() for t in texts):
            sig["all_text_is_line_separators"] = True
    return sig


def nontrivial(inp, rec):
    if rec["kind"] == "self":
        return inp["id"]
    if any(o != "reject" for o in rec["outs"]):
        return inp.get("text") if "text" in inp else "".join(REND[t] for t in inp["toks"])
    return None


def corrupt(inp, rec):
    if rec["kind"] == "self":
        return [dict(rec, detected="SRT" if rec["fmt"] != "SRT" else "SCC"), dict(rec, read=False)]
    outs = list(rec["outs"])
    out = []
    if rec["empty"]:
        return [dict(rec, result="none")]
    # claim a later reader although an earlier one accepts / claim one that rejects
    if "accept" in outs:
        k = outs.index("accept")
        out.append(dict(rec, result=ORDER[(k + 1) % 6]))
        out.append(dict(rec, result="none"))
    else:
        out.append(dict(rec, result="SRT"))
    o2 = list(outs)
    o2[0] = "raise"
    out.append(dict(rec, outs=o2))
    return out
