"""Numbers for TLC: limbs (base 10^4, little endian) and signed big integers."""
from fractions import Fraction


def limbs(n):
    n = int(n)
    assert n >= 0
    out = []
    while n:
        out.append(n % 10000)
        n //= 10000
    return out


def bigint(n):
    n = int(n)
    return {"s": -1 if n < 0 else 1, "m": limbs(abs(n))}


def from_limbs(l):
    v = 0
    for x in reversed(l):
        v = v * 10000 + x
    return v


def exact(x):
    """exact rational value of an int / float observed from the code"""
    return Fraction(x)


def ratio(x, max_den=65536, grid=1000):
    """observed number -> {"num": BigInt, "den": small}; exact when the denominator is
    small, otherwise rounded to 1/grid (the record then carries tol=1)."""
    f = Fraction(x)
    if f.denominator <= max_den:
        return {"num": bigint(f.numerator), "den": f.denominator}, True
    return {"num": bigint(round(f * grid)), "den": grid}, False


def ns(x):
    """observed microsecond value -> integer nanoseconds (rounded), as BigInt"""
    return bigint(round(Fraction(x) * 1000))


def digits(s):
    return [int(c) for c in s]
