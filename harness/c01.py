"""C01  Reading preserves every cue's start and end instant (text formats)."""
import random
from fractions import Fraction

from . import render, tlc
from .num import bigint

PID = "C01"
TRACE = "Trace_TimeCodes"
RULE = ("(G) every spelling of MC_TimeCodes (field boundary sets: hours incl. 24/99/999, minute/second carries, "
        "missing/short/long fractions, frame fields, offset metrics h/m/s/ms/f, MicroDVD frames x fps headers, SAMI "
        "millisecond syncs) put into a one-cue document, DFXP also as begin+dur; (T) random documents of 1-8 cues "
        "with random spellings up to 1000 h, empty cues interleaved, reader options (lang, time_shift_milliseconds of "
        "both signs, ignore_timing_errors), multi-language SAMI with blank syncs. non-trivial = hours > 0, a "
        "fraction other than 3 digits, frames, an offset time, dur, fps header, shift, or a SAMI blank / multi-"
        "language document; distinct by document")
ASSUMPTIONS = ["WebVTT / SRT fractions other than exactly three digits are outside the grammars (SRT's missing fraction is in)",
               "digits of a second fraction beyond the sixth are dropped (truncation to the microsecond)"]


def model_runs(ctx):
    res = tlc.run("MC_TimeCodes", cfg="MC_TimeCodes" if ctx.quick else "MC_TimeCodesFull")
    ctx.add_tlc(res, "oracle sanity (Denote vs native arithmetic, carries, metric consistency, write/read) over all boundary spellings")
    ctx._cases = res.cases()
    ctx.extra["exhaustive"] = True
    ctx.extra["bound"] = "MC_TimeCodes boundary sets (%s)" % ("reduced" if ctx.quick else "full")
    res = tlc.run("MC_Blocks", cfg="MC_Blocks" if ctx.quick else "MC_Blocks4", timeout=1800)
    ctx.add_tlc(res, "block structure: the WebVTT and SRT line loops (as repaired / as the property asks) yield exactly the "
                     "payload of the non-empty cue blocks, on every document of <= %d blocks" % (3 if ctx.quick else 4))
    ctx._blocks = [c["doc"] for c in res.cases()]


def model_controls(ctx):
    n = 0
    for cfg, what in (("MC_Blocks_neg", "the WebVTT line loop before commit 62325d3 (a blank line did not end a cue without payload)"),
                      ("MC_Blocks_negsrt", "the SRT line loop as it is (blank first payload line kept: KF-C01-6)")):
        r = tlc.run("MC_Blocks", cfg=cfg, allow_violation=True, workers=4)
        if r.violated != "ReadersMeetRequirement":
            raise tlc.MachineryError("%s: TLC did not refute %s" % (cfg, what))
        ctx.add_tlc(r, "negative control: " + what + " is refuted")
        n += 1
    return n


def D(n, width=1):
    return [int(c) for c in ("%0*d" % (width, n))]


def hms(h, m, s, frac=(), frames=(), hw=2):
    return {"kind": "hms", "h": D(h, hw) if h is not None else [], "m": D(m, 2), "s": D(s, 2),
            "frac": list(frac), "frames": list(frames)}


def _rand_hms(rng, fmt):
    h = rng.choice([0, 0, 0, 1, 9, 23, 24, 99, 100, rng.randrange(1000)])
    m, s = rng.randrange(60), rng.randrange(60)
    if rng.random() < 0.2:
        m, s = rng.choice([0, 59]), rng.choice([0, 59])
    if fmt == "SRT":
        fr = D(rng.randrange(1000), 3) if rng.random() < 0.9 else []
        return hms(h, m, s, fr, hw=rng.choice([1, 2, 2, 3]))
    if fmt == "WebVTT":
        fr = D(rng.randrange(1000), 3)
        if h == 0 and rng.random() < 0.5:
            return hms(None, m, s, fr)
        return hms(h, m, s, fr, hw=rng.choice([2, 2, 3]))
    # DFXP clock time
    r = rng.random()
    if r < 0.15:
        return hms(h, m, s, hw=rng.choice([1, 2, 3]))
    if r < 0.3:
        return hms(h, m, s, frames=D(rng.randrange(30), 2), hw=rng.choice([1, 2, 3]))
    k = rng.choice([1, 2, 3, 3, 3, 4, 5, 6, 7, 9, 12])
    return hms(h, m, s, frac=[rng.randrange(10) for _ in range(k)], hw=rng.choice([1, 2, 3]))


def _rand_off(rng):
    metric = rng.choice(["h", "m", "s", "ms", "f"])
    lim = {"h": 1000, "m": 60000, "s": 3600000, "ms": 3600000000, "f": 100000000}[metric]
    i = rng.choice([0, 1, rng.randrange(lim), rng.randrange(100)])
    f = [rng.randrange(10) for _ in range(rng.choice([0, 0, 1, 2, 3, 3, 4, 6]))]
    return {"kind": "off", "i": D(i), "f": f, "metric": metric}


def _ms_to_hms(ms, fmt, rng):
    h, rem = divmod(ms, 3600000)
    m, rem = divmod(rem, 60000)
    s, f = divmod(rem, 1000)
    if fmt == "WebVTT" and h == 0 and rng.random() < 0.5:
        return hms(None, m, s, D(f, 3))
    return hms(h, m, s, D(f, 3), hw=rng.choice([2, 2, 3]))


def inputs(ctx):
    rng = random.Random(ctx.seed * 15485863 + 1)
    ins = []
    n = 0
    for c in ctx._cases:
        fmt, sp = c["fmt"], c["sp"]
        if fmt == "DFXPoff":
            ins.append({"id": "g%d" % n, "fmt": "DFXP", "cues": [{"b": sp, "e": sp, "dur": False, "txt": True}]})
            n += 1
            ins.append({"id": "g%d" % n, "fmt": "DFXP", "cues": [{"b": sp, "e": sp, "dur": True, "txt": True}]})
        elif fmt == "SAMI":
            ins.append({"id": "g%d" % n, "fmt": "SAMI", "langs": [["ENCC", "en-US"]], "lang": 0,
                        "syncs": [{"t": sp, "ps": [["ENCC", False]]}]})
        elif fmt == "MicroDVD":
            fn, fd = c["fps"]
            # the end frame is a fixed large number: {0}{0} is pycaption's fps header, not a cue
            ins.append({"id": "g%d" % n, "fmt": fmt, "fps": [fn, fd],
                        "fps_text": None if [fn, fd] == [25, 1] else str(float(Fraction(fn, fd))),
                        "cues": [{"b": sp, "e": {"kind": "frame", "n": D(100000000)}, "dur": False, "txt": True}]})
        else:
            ins.append({"id": "g%d" % n, "fmt": fmt, "cues": [{"b": sp, "e": sp, "dur": False, "txt": True}]})
            if fmt == "DFXP":
                n += 1
                ins.append({"id": "g%d" % n, "fmt": fmt, "cues": [{"b": sp, "e": sp, "dur": True, "txt": True}]})
        n += 1
    N = 1500 if ctx.quick else 100000
    for k in range(N):
        fmt = rng.choice(["SRT", "WebVTT", "DFXP", "MicroDVD", "SAMI"])
        inp = {"id": "r%d" % k, "fmt": fmt}
        ncue = rng.randrange(1, 9)
        if fmt in ("SRT", "DFXP"):
            cues = []
            for _ in range(ncue):
                if fmt == "DFXP" and rng.random() < 0.35:
                    b, e = _rand_off(rng), _rand_off(rng)
                    dur = rng.random() < 0.4
                elif fmt == "DFXP":
                    b = _rand_hms(rng, fmt)
                    e, dur = (_rand_off(rng), True) if rng.random() < 0.2 else (_rand_hms(rng, fmt), False)
                else:
                    b, e, dur = _rand_hms(rng, fmt), _rand_hms(rng, fmt), False
                cues.append({"b": b, "e": e, "dur": dur, "txt": rng.random() < 0.85})
            if not any(c["txt"] for c in cues):
                cues[0]["txt"] = True
            inp["cues"] = cues
            if fmt == "SRT" and rng.random() < 0.3:
                inp["lang"] = rng.choice(["fr-FR", "de"])
        elif fmt == "WebVTT":
            t = rng.choice([0, rng.randrange(10 ** 4), rng.randrange(10 ** 7), rng.randrange(3_599_000_000)])
            cues = []
            for _ in range(ncue):
                d = rng.choice([0, 1, 999, 1000, rng.randrange(10 ** 5)])
                cues.append({"b": _ms_to_hms(t, fmt, rng), "e": _ms_to_hms(t + d, fmt, rng), "dur": False,
                             "txt": rng.random() < 0.85})
                t += rng.choice([0, d, d + rng.randrange(10 ** 5)])
            if not any(c["txt"] for c in cues):
                cues[0]["txt"] = True
            inp["cues"] = cues
            first = None
            inp["strict"] = rng.random() < 0.5
            r = rng.random()
            if r < 0.3:
                inp["shift"] = rng.randrange(0, 10 ** 7)
            elif r < 0.5:
                # negative shift that keeps every instant non-negative: not larger than the first start
                sp = cues[0]["b"]
                ms0 = (int(render.digs(sp["h"]) or "0") * 3600 + int(render.digs(sp["m"])) * 60
                       + int(render.digs(sp["s"]))) * 1000 + int(render.digs(sp["frac"]))
                inp["shift"] = -rng.randrange(0, ms0 + 1)
            elif r < 0.6:
                # a backward shift beyond the first cues: with timing errors ignored every instant is
                # still the denoted one plus the shift (negative), not clamped or dropped
                sp = cues[0]["b"]
                ms0 = (int(render.digs(sp["h"]) or "0") * 3600 + int(render.digs(sp["m"])) * 60
                       + int(render.digs(sp["s"]))) * 1000 + int(render.digs(sp["frac"]))
                inp["shift"] = -rng.randrange(ms0 + 1, ms0 + 10 ** 6)
                inp["strict"] = False
            if rng.random() < 0.3:
                inp["lang"] = "es-419"
        elif fmt == "MicroDVD":
            fn, fd = rng.choice([[25, 1], [25, 1], [24, 1], [30, 1], [50, 1], [23976, 1000], [2997, 100], [5994, 100]])
            inp["fps"] = [fn, fd]
            inp["fps_text"] = None if (fn, fd) == (25, 1) and rng.random() < 0.7 else str(float(Fraction(fn, fd)))
            f = rng.choice([0, 1, rng.randrange(100), rng.randrange(10 ** 6), rng.randrange(8 * 10 ** 7)])
            cues = []
            for _ in range(ncue):
                d = rng.choice([1, 2, 25, rng.randrange(1, 500)])
                cues.append({"b": {"kind": "frame", "n": D(f)}, "e": {"kind": "frame", "n": D(f + d)}, "dur": False,
                             "txt": rng.random() < 0.85})
                f += d + rng.randrange(0, 100)
            if not any(c["txt"] for c in cues):
                cues[0]["txt"] = True
            # {0}{0} is the fps header: a cue at frames 0..0 cannot be written
            inp["cues"] = [c for c in cues if not (render.digs(c["b"]["n"]) == "0" and render.digs(c["e"]["n"]) == "0")] or cues[1:] or cues
        else:
            nl = rng.choice([1, 1, 2, 3])
            langs = [["ENCC", "en-US"], ["FRCC", "fr-FR"], ["DECC", "de-DE"]][:nl]
            t = rng.choice([0, rng.randrange(10 ** 4), rng.randrange(10 ** 7), rng.randrange(3_599_000_000)])
            syncs = []
            for _ in range(ncue + 1):
                ps = [[c, rng.random() < 0.3] for c, _ in langs if rng.random() < 0.8]
                if ps:
                    syncs.append({"t": {"kind": "ms", "n": D(t)}, "ps": ps})
                t += rng.choice([1, 999, 1000, 4000, rng.randrange(1, 10 ** 5)])
            inp["langs"] = langs
            inp["syncs"] = syncs
            inp["lang"] = rng.randrange(nl)
        # document-shape variants every grammar allows: CRLF line ends; WebVTT cue identifiers,
        # a NOTE block and header metadata
        if fmt in ("SRT", "WebVTT", "MicroDVD") and rng.random() < 0.3:
            inp["crlf"] = True
        if fmt == "WebVTT" and rng.random() < 0.4:
            inp["vtt_extras"] = True
        ins.append(inp)
    # numbers as cue text, in every format; MicroDVD cues on the very first frames ({1}{1}, {0}{1},
    # {1}{2}: only {0}{0} is the frame-rate header), with and without a header
    for fmt in ("SRT", "WebVTT", "DFXP"):
        cues = [{"b": _ms_to_hms(1000 * (k + 1), fmt, rng), "e": _ms_to_hms(1000 * (k + 1) + 500, fmt, rng), "dur": False, "txt": True}
                for k in range(8)]
        ins.append({"id": "nt%d" % n, "fmt": fmt, "cues": cues, "numtext": True})
        n += 1
    for first in ([1, 1], [0, 1], [1, 2], [2, 2], [1, 1, 2, 2]):
        for fps, fps_text in (([25, 1], None), ([2997, 100], "29.97"), ([24, 1], "24.0")):
            frames = [(first[0], first[1])] + ([(first[2], first[3])] if len(first) > 2 else []) + [(26, 50), (51, 75), (100, 130)]
            cues = [{"b": {"kind": "frame", "n": D(a)}, "e": {"kind": "frame", "n": D(b)}, "dur": False, "txt": True} for a, b in frames]
            for numtext in (True, False):
                ins.append({"id": "nt%d" % n, "fmt": "MicroDVD", "fps": fps, "fps_text": fps_text, "cues": cues, "numtext": numtext})
                n += 1
    # MicroDVD rates whose binary double lies above the decimal in the header (23.98, 24.975, 99.9 ...),
    # at frames whose instant is a whole number of microseconds
    for fps_text, fn, fd, unit in (("23.98", 2398, 100, 1199), ("24.975", 24975, 1000, 999), ("99.9", 999, 10, 999), ("24.1", 241, 10, 241),
                                   ("25.1", 251, 10, 251), ("30.3", 303, 10, 303), ("16.67", 1667, 100, 1667)):
        frames = [(unit * k, unit * (k + 1)) for k in (1, 2, 5, 40)]
        cues = [{"b": {"kind": "frame", "n": D(a)}, "e": {"kind": "frame", "n": D(b)}, "dur": False, "txt": True} for a, b in frames]
        ins.append({"id": "fr%d" % n, "fmt": "MicroDVD", "fps": [fn, fd], "fps_text": fps_text, "cues": cues})
        n += 1
    # DFXP: several divs of one language (own xml:lang or inherited), later divs holding earlier cues:
    # captions come in document order, each with its own instants
    for shape in ([[3, 4], [1, 2]], [[1, 5], [2, 3], [0, 4]], [[2], [1], [3]], [[5, 1], [4]]):
        for dlang in ("en", None):
            divs = [[{"b": _ms_to_hms(1000 * t + 100, "DFXP", rng), "e": _ms_to_hms(1000 * t + 800, "DFXP", rng), "dur": False, "txt": True}
                     for t in d] for d in shape]
            ins.append({"id": "dv%d" % n, "fmt": "DFXP", "cues": [c for d in divs for c in d], "divs": [len(d) for d in divs],
                        "divlang": dlang})
            n += 1
    # document block structure: every abstract document of MC_Blocks, laid out and read
    for k, doc in enumerate(ctx._blocks):
        ins.append({"id": "blk%d" % k, "k": "blocks", "fmt": doc["fmt"], "doc": doc})
    return ins


def _obs_time(x):
    f = Fraction(x)
    return {"int": f.denominator == 1, "v": bigint(f.numerator // f.denominator)}


def _project(cs, lang):
    caps = cs.get_captions(lang)
    return [{"s": _obs_time(c.start), "e": _obs_time(c.end)} for c in caps]


def execute(inp):
    import pycaption
    if inp.get("k") == "blocks":
        from . import blocks
        return blocks.execute(inp)
    fmt = inp["fmt"]
    rec = {"k": "read", "fmt": fmt, "shift": bigint(inp.get("shift", 0)), "fps": inp.get("fps", [25, 1])}
    if fmt == "SAMI":
        doc = render.sami_doc(
            [tuple(x) for x in inp["langs"]],
            [(render.stamp(s["t"]), [(c, "&nbsp;" if blank else "text %s" % c) for c, blank in s["ps"]])
             for s in inp["syncs"]])
        cls, lang = inp["langs"][inp["lang"]]
        rec["syncs"] = [{"t": s["t"], "blank": [b for c, b in s["ps"] if c == cls][0]}
                        for s in inp["syncs"] if any(c == cls for c, _ in s["ps"])]
        rec["cues"] = []
        try:
            cs = pycaption.SAMIReader().read(doc)
            rec["obs"] = {"ok": True, "caps": _project(cs, lang)}
        except pycaption.CaptionReadNoCaptions:
            # a document whose every paragraph is blank has no captions to return
            rec["obs"] = {"ok": True, "caps": []} if all(b for s in inp["syncs"] for _, b in s["ps"]) \
                else {"ok": False, "caps": [], "err": "CaptionReadNoCaptions"}
        except Exception as e:
            rec["obs"] = {"ok": False, "caps": [], "err": type(e).__name__ + ": " + str(e)[:200]}
        return rec
    cues = inp["cues"]
    rec["cues"] = cues
    lang = inp.get("lang")
    text = lambda k, c: ["line %d" % k, "second"] if c["txt"] and k % 2 else (["line %d" % k] if c["txt"] else [])
    if inp.get("numtext"):
        # cue texts that are numbers (a countdown, a year, a score): text all the same
        nums = ["3", "1984", "25", "1e3", "10", "23.976", "2", "1"]
        text = lambda k, c: [nums[k % len(nums)]] if c["txt"] else []
    try:
        if fmt == "SRT":
            doc = render.srt_doc([(render.stamp(c["b"], ","), render.stamp(c["e"], ","), text(k, c))
                                  for k, c in enumerate(cues)])
            if inp.get("crlf"):
                doc = doc.replace("\n", "\r\n")
            kw = {"lang": lang} if lang else {}
            cs = pycaption.SRTReader().read(doc, **kw)
            lg = lang or "en-US"
        elif fmt == "WebVTT":
            doc = render.webvtt_doc([(render.stamp(c["b"]), render.stamp(c["e"]), text(k, c))
                                     for k, c in enumerate(cues)])
            if inp.get("vtt_extras"):
                blocks = doc.split("\n\n")
                out = [blocks[0] + " - title\nKind: captions\nLanguage: en", "NOTE a comment\nover two lines"]
                for k, b in enumerate(blocks[1:]):
                    out.append(("cue-%d\n" % k if k % 2 == 0 else "") + b)
                doc = "\n\n".join(out)
            if inp.get("crlf"):
                doc = doc.replace("\n", "\r\n")
            kw = {"lang": lang} if lang else {}
            rd = pycaption.WebVTTReader(ignore_timing_errors=not inp.get("strict", False),
                                        time_shift_milliseconds=inp.get("shift", 0))
            cs = rd.read(doc, **kw)
            lg = lang or "en-US"
        elif fmt == "DFXP":
            ps = []
            for k, c in enumerate(cues):
                attrs = 'begin="%s" %s="%s"' % (render.stamp(c["b"]), "dur" if c["dur"] else "end", render.stamp(c["e"]))
                ps.append((attrs, "<br/>".join(text(k, c))))
            if inp.get("divs"):
                groups, at = [], 0
                for m in inp["divs"]:
                    groups.append((inp.get("divlang"), ps[at:at + m]))
                    at += m
                doc = render.dfxp_doc(groups)
            else:
                doc = render.dfxp_doc([("en", ps)])
            cs = pycaption.DFXPReader().read(doc)
            lg = "en"
        else:
            doc = render.microdvd_doc([(render.stamp(c["b"]), render.stamp(c["e"]), text(k, c))
                                       for k, c in enumerate(cues)], inp.get("fps_text"))
            if inp.get("crlf"):
                doc = doc.replace("\n", "\r\n")
            cs = pycaption.MicroDVDReader().read(doc)
            lg = cs.get_languages()[0]
        rec["obs"] = {"ok": True, "caps": _project(cs, lg)}
    except Exception as e:
        rec["obs"] = {"ok": False, "caps": [], "err": type(e).__name__ + ": " + str(e)[:200]}
    return rec


def _features(inp):
    f = set()
    if inp["fmt"] == "SAMI":
        return {"sami"}
    for c in inp["cues"]:
        for sp in (c["b"], c["e"]):
            if sp["kind"] == "off":
                f.add("off:" + sp["metric"] + (":frac" if sp["f"] else ""))
            elif sp["kind"] == "hms":
                if sp["frames"]:
                    f.add("frames")
                elif len(sp["frac"]) > 3:
                    f.add("longfrac")
                elif 0 < len(sp["frac"]) < 3:
                    f.add("shortfrac")
            elif sp["kind"] == "frame":
                f.add("frame")
        if c["dur"]:
            f.add("dur")
    return f


def signature(inp, rec, clause):
    sig = {"clause": clause.split(" ")[0], "fmt": inp["fmt"]}
    if inp.get("k") == "blocks":
        from . import blocks
        sig["k"] = "blocks"
        sig["srt_blank_after_empty_cue"] = blocks.srt_blank_after_empty_cue(inp["doc"])
        return sig
    f = _features(inp)
    # the single feature that explains a rejection, when there is one
    if inp["fmt"] == "DFXP":
        if "longfrac" in f:
            sig["feature"] = "longfrac"
        elif any(x.startswith("off:") and x.endswith(":frac") for x in f):
            sig["feature"] = "offset-fraction"
        else:
            sig["feature"] = ",".join(sorted(f)) or "plain"
    elif inp["fmt"] == "MicroDVD":
        sig["feature"] = "frame"
    elif inp["fmt"] == "WebVTT":
        # with vtt_extras every even cue carries an identifier line
        cues = inp["cues"]
        sig["identifier_after_empty_cue"] = bool(inp.get("vtt_extras")) and any(
            k % 2 == 0 and not cues[k - 1]["txt"] for k in range(1, len(cues)))
    return sig


def nontrivial(inp, rec):
    if inp.get("k") == "blocks":
        return inp["id"]
    if inp["fmt"] == "SAMI":
        if len(inp["langs"]) > 1 or any(b for s in inp["syncs"] for _, b in s["ps"]) or len(inp["syncs"]) > 1:
            return inp["id"]
        return inp["id"] if inp["id"].startswith("g") else None
    f = _features(inp)
    hrs = any(sp["kind"] == "hms" and any(sp["h"]) for c in inp["cues"] for sp in (c["b"], c["e"]))
    if f or hrs or inp.get("shift") or inp.get("fps_text"):
        return inp["id"]
    return None


def corrupt(inp, rec):
    import copy
    if rec.get("k") == "blocks":
        from . import blocks
        return blocks.corrupt(rec)
    if not rec["obs"]["ok"] or not rec["obs"]["caps"]:
        return []
    from .num import from_limbs
    out = []
    c = copy.deepcopy(rec)
    v = c["obs"]["caps"][0]["s"]["v"]
    c["obs"]["caps"][0]["s"]["v"] = bigint(from_limbs(v["m"]) * v["s"] + 1)
    out.append(c)
    c = copy.deepcopy(rec)
    v = c["obs"]["caps"][-1]["e"]["v"]
    c["obs"]["caps"][-1]["e"]["v"] = bigint(from_limbs(v["m"]) * v["s"] + 1000)
    out.append(c)
    c = copy.deepcopy(rec)
    c["obs"]["caps"] = c["obs"]["caps"][1:]
    out.append(c)
    return out
