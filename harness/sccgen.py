"""SCC (Scenarist / CEA-608) renderer and structured program generator.

The control-code layout (preamble address codes, tab offsets, mid-row codes, miscellaneous
control codes, odd parity) is written down here from the CEA-608 code tables, not taken from
pycaption.  Glyph tables (which character a displayable code stands for) are read from
pycaption.scc.constants: the properties are about the decoder's logic, and the abstract
programs carry code points, so a glyph is just a label.
"""
import random


def parity(b):
    """set bit 7 so that the byte has odd parity"""
    b &= 0x7F
    return b | 0x80 if bin(b).count("1") % 2 == 0 else b


def word(hi, lo):
    return "%02x%02x" % (parity(hi), parity(lo))


# row -> (high byte, low-byte base)
PAC_ROW = {1: (0x11, 0x40), 2: (0x11, 0x60), 3: (0x12, 0x40), 4: (0x12, 0x60), 5: (0x15, 0x40), 6: (0x15, 0x60),
           7: (0x16, 0x40), 8: (0x16, 0x60), 9: (0x17, 0x40), 10: (0x17, 0x60), 11: (0x10, 0x40),
           12: (0x13, 0x40), 13: (0x13, 0x60), 14: (0x14, 0x40), 15: (0x14, 0x60)}


def pac(row, col=0, italic=False, underline=False, color=0):
    """col in 0,4,...,28 (indent) - or col 0 with a colour 0..6 / italic attribute"""
    hi, base = PAC_ROW[row]
    if italic:
        lo = base + 0x0E
    elif col:
        lo = base + 0x10 + (col // 4) * 2
    else:
        lo = base + color * 2
    if underline:
        lo += 1
    return word(hi, lo)


def tab(n):
    return word(0x17, 0x20 + n)


def midrow(italic, underline=False, color=0):
    lo = 0x2E if italic else 0x20 + color * 2
    if underline:
        lo += 1
    return word(0x11, lo)


CTRL = {"RCL": 0x20, "BS": 0x21, "DER": 0x24, "RU2": 0x25, "RU3": 0x26, "RU4": 0x27, "FON": 0x28, "RDC": 0x29,
        "TR": 0x2A, "RTD": 0x2B, "EDM": 0x2C, "CR": 0x2D, "ENM": 0x2E, "EOC": 0x2F}


def ctrl(name):
    return word(0x14, CTRL[name])


_tables = None


def tables():
    """code point -> code for basic (1 byte), special and extended (2 bytes) characters"""
    global _tables
    if _tables is None:
        from pycaption.scc.constants import CHARACTERS, EXTENDED_CHARS, SPECIAL_CHARS
        basic = {ord(v): k for k, v in CHARACTERS.items() if v and len(v) == 1}
        special = {ord(v): k for k, v in SPECIAL_CHARS.items() if len(v) == 1}
        ext = {ord(v): k for k, v in EXTENDED_CHARS.items() if len(v) == 1}
        _tables = (basic, special, ext)
    return _tables


def render_sym(s, doubled):
    """abstract symbol -> (list of words, symbol with w filled in)"""
    basic, special, ext = tables()
    k = s["k"]
    ctl = True
    if k == "PAC":
        w = pac(s["r"], s["c"], s["i"], s.get("u", False), s.get("color", 0))
    elif k == "TO":
        w = tab(s["n"])
    elif k == "MID":
        w = midrow(s["i"], s.get("u", False), s.get("color", 0))
    elif k == "SP":
        w = special[s["x"]]
    elif k == "EXT":
        w = ext[s["x"]]
    elif k == "BS":
        w = ctrl("BS")
    elif k in ("RCL", "ENM", "EDM", "EOC", "RDC", "CR"):
        w = ctrl(k)
    elif k == "RU":
        w = ctrl("RU%d" % s["n"])
    elif k == "CH":
        ctl = False
        w = basic[s["a"]] + (basic[s["b"]] if s["b"] else "80")
    elif k == "NOP":
        ctl = False
        w = s.get("word", "8080")
    else:
        raise ValueError(k)
    n = 2 if (doubled and ctl) else 1
    out = dict(s)
    out["w"] = n
    return [w] * n, out


def render_program(lines, doubled):
    """lines: [{"tc": [h,m,s,f], "drop": bool, "syms": [...]}] -> (scc text, lines with w filled in).
    A preamble followed by its tab offset is doubled as a unit: PAC TO PAC TO."""
    out = ["Scenarist_SCC V1.0", ""]
    abs_lines = []
    for ln in lines:
        words = []
        syms = []
        i = 0
        ss = ln["syms"]
        while i < len(ss):
            s = ss[i]
            if doubled and s["k"] == "PAC" and i + 1 < len(ss) and ss[i + 1]["k"] == "TO":
                w1, a1 = render_sym(s, False)
                w2, a2 = render_sym(ss[i + 1], False)
                words += w1 + w2 + w1 + w2
                a1["w"] = 2
                a2["w"] = 2
                syms += [a1, a2]
                i += 2
                continue
            w, a = render_sym(s, doubled)
            words += w
            syms.append(a)
            i += 1
        tc = ln["tc"]
        sep = ";" if ln["drop"] else ":"
        out.append("%02d:%02d:%02d%s%02d\t%s" % (tc[0], tc[1], tc[2], sep, tc[3], " ".join(words)))
        out.append("")
        abs_lines.append({"tc": tc, "drop": ln["drop"], "syms": syms})
    return "\n".join(out) + "\n", abs_lines


# ------------------------------------------------------------------ structured pop-on programs
LETTERS = [ord(c) for c in "ABCDEFGHIJKLMNOPQRSTUVWXYZabcdefghijklmnopqrstuvwxyz0123456789"]
PUNCT = [ord(c) for c in ".,!?'-:;"]


def _row_items(rng, room):
    """1-6 items that write into `room` columns; the row ends in a visible character.
    Returns the symbol list (mid-row cells and characters never exceed the room)."""
    basic, special, ext = tables()
    if room <= 1:
        return [{"k": "CH", "a": rng.choice(LETTERS), "b": 0}]
    syms = []
    used = 0
    ext_cps = [c for c in ext if c != 32]
    sp_cps = [c for c in special if c != 32]
    n = rng.randrange(1, 7)
    for it in range(n):
        kind = rng.choice(["pair", "pair", "pair", "single", "special", "extended", "bs", "mid_on", "mid_off", "word"])
        if kind == "pair" and used + 2 <= room:
            syms.append({"k": "CH", "a": rng.choice(LETTERS), "b": rng.choice(LETTERS + PUNCT)})
            used += 2
        elif kind == "word" and used + 6 <= room:
            for _ in range(3):
                syms.append({"k": "CH", "a": rng.choice(LETTERS + [32]), "b": rng.choice(LETTERS)})
            used += 6
        elif kind == "single" and used + 1 <= room:
            syms.append({"k": "CH", "a": rng.choice(LETTERS), "b": 0})
            used += 1
        elif kind == "special" and used + 1 <= room:
            syms.append({"k": "SP", "x": rng.choice(sp_cps)})
            used += 1
        elif kind == "extended" and used + 1 <= room:
            # a stand-in, then the extended character that replaces it; the stand-in is a basic
            # character as a rule, now and then a special character or a blank
            r = rng.random()
            if r < 0.8:
                syms.append({"k": "CH", "a": rng.choice(LETTERS), "b": 0})
            elif r < 0.9 and syms:
                syms.append({"k": "CH", "a": 32, "b": 0})
            else:
                syms.append({"k": "SP", "x": rng.choice(sp_cps)})
            syms.append({"k": "EXT", "x": rng.choice(ext_cps)})
            used += 1
        elif kind == "bs" and used + 2 <= room:
            syms.append({"k": "CH", "a": rng.choice(LETTERS), "b": rng.choice(LETTERS)})
            syms.append({"k": "BS"})
            used += 1
        elif kind in ("mid_on", "mid_off") and used + 2 <= room and syms:
            mid = {"k": "MID", "i": kind == "mid_on"}
            # the underlined twin of the code (same italics meaning), or a colour for a plain one
            if rng.random() < 0.25:
                mid["u"] = True
            if not mid["i"] and rng.random() < 0.3:
                mid["color"] = rng.randrange(0, 7)
            syms.append(mid)
            syms.append({"k": "CH", "a": rng.choice(LETTERS), "b": 0})
            used += 2
    if not syms or used == 0:
        syms = [{"k": "CH", "a": rng.choice(LETTERS), "b": rng.choice(LETTERS) if room >= 2 else 0}]
    # end in a visible character
    last = syms[-1]
    if last["k"] in ("BS", "MID") or (last["k"] == "CH" and (last["b"] or last["a"]) == 32):
        if used + 1 <= room:
            syms.append({"k": "CH", "a": rng.choice(LETTERS), "b": 0})
        else:
            syms = [{"k": "CH", "a": rng.choice(LETTERS), "b": rng.choice(LETTERS) if room >= 2 else 0}]
    return syms


def popon_caption(rng, rows=None):
    """symbol list of one pop-on caption load (without RCL / EOC)"""
    nrows = rng.randrange(1, 5)
    rows = rows or sorted(rng.sample(range(1, 16), nrows))
    syms = []
    # now and then a load whose rows mostly open with an italic preamble (italics carried across
    # several repositionings within one load)
    p_italic = 0.7 if rng.random() < 0.2 else 0.15
    for r in rows:
        italic = rng.random() < p_italic
        col = 0 if italic else rng.choice([0, 0, 4, 8, 12, 16, 20, 24, 28])
        p = {"k": "PAC", "r": r, "c": col, "i": italic}
        if rng.random() < 0.2:
            p["u"] = True                  # underline bit: no bearing on text, italics or position
        if col == 0 and not italic and rng.random() < 0.25:
            p["color"] = rng.randrange(0, 7)
        syms.append(p)
        to = 0
        if rng.random() < 0.3 and col + 3 <= 31:
            to = rng.randrange(1, 4)
            syms.append({"k": "TO", "n": to})
        # what a decoder does once the cursor has reached the last column (backspace, extended
        # characters, further text) is decoder-specific: rows stop one column short of it,
        # except for a row that consists of a single character in column 31
        syms += _row_items(rng, max(1, min(31 - col - to, rng.choice([4, 8, 12, 32]))))
    return syms, rows


def popon_program(rng, ncaps=None, drop=None, gaps=None):
    """a well-formed pop-on program: list of lines; one line per caption load, erase inline
    or on its own line or absent"""
    ncaps = ncaps or rng.randrange(1, 4)
    drop = rng.random() < 0.5 if drop is None else drop
    lines = []
    f = rng.randrange(0, 30 * 60 * 5)
    for c in range(ncaps):
        # the non-displayed memory is erased before every load (after End-Of-Caption it holds
        # the screen that was just replaced); either order of RCL and ENM
        syms = [{"k": "RCL"}, {"k": "ENM"}] if rng.random() < 0.5 else [{"k": "ENM"}, {"k": "RCL"}]
        body, rows = popon_caption(rng)
        syms += body
        mode = rng.choice(["inline", "separate", "none"])
        if mode == "inline" and c > 0:
            syms.append({"k": "EDM"})
        syms.append({"k": "EOC"})
        lines.append({"f": f, "syms": syms})
        f += len(syms) * 2 + rng.randrange(30, 120)
        if mode == "separate" or (c == ncaps - 1 and rng.random() < 0.6):
            lines.append({"f": f, "syms": [{"k": "EDM"}]})
            f += rng.choice([1, 2, 3, 4, 5, 6, 7, 8, 30, 90])
    out = []
    for ln in lines:
        fr = ln["f"]
        tc = [fr // (30 * 3600), (fr // (30 * 60)) % 60, (fr // 30) % 60, fr % 30]
        out.append({"tc": tc, "drop": drop, "syms": ln["syms"]})
    return out


# ------------------------------------------------------------------ scanning SCC output
ROW_OF = {}
for _r, (_hi, _base) in PAC_ROW.items():
    ROW_OF[(_hi, _base)] = _r
CTRL_NAME = {v: k for k, v in CTRL.items()}


def decode_word(hi, lo):
    """parity-stripped bytes -> abstract symbol (without w)"""
    basic, special, ext = tables()
    inv_basic = {int(v[:2], 16) & 0x7F: k for k, v in basic.items()}
    if hi in (0x11, 0x12, 0x15, 0x16, 0x17, 0x10, 0x13, 0x14) and 0x40 <= lo <= 0x7F:
        base = lo & 0x60 if hi != 0x10 else 0x40
        if hi == 0x10 and lo >= 0x60:
            return {"k": "BAD"}
        row = ROW_OF.get((hi, base))
        if row is None:
            return {"k": "BAD"}
        attr = lo & 0x1F
        if attr >= 0x10:
            return {"k": "PAC", "r": row, "c": ((attr - 0x10) // 2) * 4, "i": False}
        return {"k": "PAC", "r": row, "c": 0, "i": (attr // 2) == 7}
    if hi == 0x14 and 0x20 <= lo <= 0x2F:
        name = CTRL_NAME.get(lo)
        if name in ("RU2", "RU3", "RU4"):
            return {"k": "RU", "n": int(name[2])}
        return {"k": name if name in ("RCL", "BS", "RDC", "EDM", "CR", "ENM", "EOC") else "NOP"}
    if hi == 0x17 and 0x21 <= lo <= 0x23:
        return {"k": "TO", "n": lo - 0x20}
    if hi == 0x11 and 0x20 <= lo <= 0x2F:
        return {"k": "MID", "i": lo in (0x2E, 0x2F)}
    if hi == 0x11 and 0x30 <= lo <= 0x3F:
        code = "%02x%02x" % (parity(hi), parity(lo))
        for cp, c in special.items():
            if c == code:
                return {"k": "SP", "x": cp}
        return {"k": "BAD"}
    if hi in (0x12, 0x13) and 0x20 <= lo <= 0x3F:
        code = "%02x%02x" % (parity(hi), parity(lo))
        for cp, c in ext.items():
            if c == code:
                return {"k": "EXT", "x": cp}
        return {"k": "BAD"}
    if hi >= 0x20:
        a = inv_basic.get(hi)
        b = inv_basic.get(lo) if lo else 0
        if a is None or b is None:
            return {"k": "BAD"}
        return {"k": "CH", "a": a, "b": b}
    if hi == 0 and lo == 0:
        return {"k": "NOP"}
    return {"k": "BAD"}


def scan_scc(text):
    """-> (header_ok, syntax_ok, lines) with lines [{"tc", "sep", "bytes", "syms"}]"""
    import re
    raw = text.split("\n")
    header_ok = bool(raw) and raw[0] == "Scenarist_SCC V1.0"
    syntax_ok = True
    lines = []
    pat = re.compile(r"^(\d{2}):(\d{2}):(\d{2})([:;])(\d{2})\t((?:[0-9a-fA-F]{4})(?: [0-9a-fA-F]{4})*) ?$")
    for ln in raw[1:]:
        if ln.strip() == "":
            continue
        m = pat.match(ln)
        if not m:
            syntax_ok = False
            continue
        words = m.group(6).split(" ")
        bts = [[int(w[:2], 16), int(w[2:], 16)] for w in words]
        syms = []
        prev = None
        for hi, lo in bts:
            s = decode_word(hi & 0x7F, lo & 0x7F)
            ctl = s["k"] not in ("CH", "NOP", "BAD")
            if ctl and prev is not None and prev[0] == (hi, lo) and prev[1]["w"] == 1:
                prev[1]["w"] = 2          # the redundant copy of a control pair
                prev = None
                continue
            s["w"] = 1
            syms.append(s)
            prev = ((hi, lo), s) if ctl else None
        lines.append({"tc": [int(m.group(1)), int(m.group(2)), int(m.group(3)), int(m.group(5))], "sep": m.group(4),
                      "drop": m.group(4) == ";", "bytes": bts, "syms": syms})
    return header_ok, syntax_ok, lines
