"""C07  DFXP output is well-formed XML and internally consistent."""
import copy
import random
from fractions import Fraction

from . import build, corpus, scan, tlc
from .registry import READERS, WRITERS

PID = "C07"
TRACE = "Trace_DfxpDoc"
RULE = ("(G) every layout assignment of MC_DfxpDoc (5^5 assignments of {none, A, B, default-equal, webvtt-only} to set, "
        "language, two captions, a styled span) written by the three DFXP writers; every metacharacter class "
        "(& < > \" ' space) in every string position (node text, caption style values and class, style-table keys and "
        "values, span style values, language code) x the three writers; (T) sets returned by all six readers on the "
        "corpus documents and random API-built sets with printable-Unicode strings, under random writer options "
        "(relativize, fit_to_screen, video size, write_inline_positioning, force). Output is parsed strictly (expat and "
        "lxml without recovery), the tree is projected to ids / references / divs / paragraphs and judged by TLC. "
        "non-trivial = a layout, a style or a metacharacter is involved; distinct by input")
ASSUMPTIONS = ["lxml's complaint that an xml:id is not an NCName is an xml:id validity rule, not XML 1.0 well-formedness, and is ignored",
               "force naming a language the set does not contain leaves the written languages unsettled (only distinctness is required)"]

DW = ["DFXP", "DFXP-single", "DFXP-legacy"]
LAY = {
    "none": None,
    "A": {"o": [["10", "%"], ["20", "%"]], "e": [["50", "%"], ["30", "%"]]},
    "B": {"o": [["30", "%"], ["40", "%"]], "a": ["center", "top"]},
    "D": {"a": ["start", "bottom"]},
    "W": {"w": "line:5%"},
}
STRS = {"plain": "ab", "sp": "a b", "amp": "a&b", "lt": "a<b", "gt": "a>b", "dq": "a\"b", "sq": "a'b", "mix": "<&\"'>",
        "ent": "x&nbsp;y Caf&eacute; AT&T; z", "badref": "&#0; &#xZZ; &bogus; &amp;amp;", "cdend": "a]]>b", "ctrl": "a\u0085b\u2028c"}
POSITIONS = ["text", "cap_color", "cap_font", "cap_size", "cap_align", "cap_class", "style_key", "style_val",
             "span_color", "span_class", "lang"]


def model_runs(ctx):
    res = tlc.run("MC_DfxpDoc")
    ctx.add_tlc(res, "region table design model: every reference resolves, every region is referenced, on all 3125 layout assignments")
    ctx._cases = res.cases()
    ctx.extra["exhaustive"] = True
    ctx.extra["bound"] = "5^5 layout assignments; 11 string positions x 8 metacharacter classes"


def _layout_set(c):
    n1 = [["t", "one "]]
    if c["node"] != "none":
        n1 += [["s", True, {"italics": True}, LAY[c["node"]]], ["t", "styled", LAY[c["node"]]],
               ["s", False, {"italics": True}, LAY[c["node"]]]]
    return {"langs": [{"lang": "en", "layout": LAY[c["lang"]], "caps": [
        {"s": 1000000, "e": 2000000, "layout": LAY[c["cap1"]], "nodes": n1},
        {"s": 3000000, "e": 4000000, "layout": LAY[c["cap2"]], "nodes": [["t", "two"]]}]}],
        "layout": LAY[c["set"]]}


def _string_set(pos, s):
    style = {}
    styles = {}
    span = {"italics": True}
    lang = "en-US"
    text = "hello"
    if pos == "text":
        text = s
    elif pos == "cap_color":
        style["color"] = s
    elif pos == "cap_font":
        style["font-family"] = s
    elif pos == "cap_size":
        style["font-size"] = s
    elif pos == "cap_align":
        style["text-align"] = s
    elif pos == "cap_class":
        style["class"] = s
        styles[s] = {"color": "red"}
    elif pos == "style_key":
        styles[s] = {"color": "red"}
    elif pos == "style_val":
        styles["st1"] = {"color": s, "font-family": s}
        style["class"] = "st1"
    elif pos == "span_color":
        span["color"] = s
    elif pos == "span_class":
        span["class"] = s
        styles[s] = {"color": "blue"}
    elif pos == "lang":
        lang = s
    return {"langs": [{"lang": lang, "caps": [
        {"s": 1000000, "e": 2000000, "style": style,
         "nodes": [["t", text], ["b"], ["s", True, span], ["t", "styled"], ["s", False, span]]},
        {"s": 1000000, "e": 2000000, "nodes": [["t", "same time"]]},
        {"s": 3000000, "e": 4000000, "nodes": [["t", "later"]]}]}], "styles": styles}


def _opts(rng, w):
    o = {}
    if w != "DFXP-legacy":
        if rng.random() < 0.3:
            o["relativize"] = False
        if rng.random() < 0.3:
            o["fit_to_screen"] = False
        if rng.random() < 0.4:
            o["video_width"], o["video_height"] = 640, 360
        if rng.random() < 0.3:
            o["write_inline_positioning"] = True
    return o


def inputs(ctx):
    rng = random.Random(ctx.seed * 160481183 + 7)
    ins = []
    n = 0
    for k, c in enumerate(ctx._cases):
        for w in (DW if not ctx.quick else [DW[k % 3]]):
            ins.append({"id": "g%d" % n, "writer": w, "set": _layout_set(c), "opts": {"write_inline_positioning": k % 2 == 1} if w != "DFXP-legacy" else {}, "force": ""})
            n += 1
    for pos in POSITIONS:
        for cls, s in STRS.items():
            for w in DW:
                ins.append({"id": "s%d" % n, "writer": w, "set": _string_set(pos, s), "opts": {}, "force": "", "pos": pos, "cls": cls})
                n += 1
    # style tables: every key (the special id "p", an ordinary class) x every kind of rule set
    # (expressible in DFXP, not expressible, empty, mixed) x what captions and spans refer to
    rules = [{"color": "red"}, {"font-weight": "bold"}, {"bold": True}, {}, {"color": "red", "font-weight": "bold"},
             {"lang": "en-US"}, {"text-align": "center"}, {"underline": True, "font-size": "12"}]
    for key in ("p", "c1"):
        for r1 in rules:
            for other in (None, {"color": "blue"}, {"font-weight": "bold"}):
                styles = {key: dict(r1)}
                if other is not None:
                    styles["c2" if key != "c2" else "c3"] = dict(other)
                for capref in ({}, {"class": key}, {"class": "missing"}, {"class": "c2"}):
                    for spanref in ({"italics": True}, {"class": key}, {"class": "c2", "italics": True}):
                        st = {"langs": [{"lang": "en-US", "caps": [
                            {"s": 1000000, "e": 2000000, "style": dict(capref),
                             "nodes": [["t", "a "], ["s", True, dict(spanref)], ["t", "b"], ["s", False, dict(spanref)]]},
                            {"s": 3000000, "e": 4000000, "nodes": [["t", "c"]]}]}], "styles": styles}
                        for w in DW:
                            if ctx.quick and (n % 2):
                                n += 1
                                continue
                            ins.append({"id": "y%d" % n, "writer": w, "set": st, "opts": {}, "force": ""})
                            n += 1
    # regions nobody refers to: several layouts that end up unused (another language's under force=,
    # plain text nodes' own layouts, which no element can reference) must all be cleaned up, whatever
    # their number and order of creation
    names = ["A", "B", "D", "E", "F"]
    LAY.setdefault("E", {"o": [["5", "%"], ["5", "%"]]})
    LAY.setdefault("F", {"o": [["15", "%"], ["25", "%"]], "e": [["40", "%"], ["20", "%"]]})
    import itertools
    for k in range(1, 5):
        for combo in itertools.permutations(names, k) if k <= 2 else [tuple(names[:k]), tuple(reversed(names[:k])), tuple(names[1:k + 1])]:
            other = {"lang": "fr-FR", "caps": [{"s": 1000000 * (i + 1), "e": 1000000 * (i + 1) + 500000, "layout": LAY[nm],
                                                  "nodes": [["t", "fr %d" % i]]} for i, nm in enumerate(combo)]}
            for mine in (None, "A", "B"):
                en = {"lang": "en-US", "caps": [{"s": 1000000, "e": 2000000, "layout": LAY[mine] if mine else None,
                                                 "nodes": [["t", "en"]]}]}
                for order in ((en, other), (other, en)):
                    for w in DW:
                        for force in ("en-US", "fr-FR", ""):
                            ins.append({"id": "f%d" % n, "writer": w, "set": {"langs": [order[0], order[1]]}, "opts": {}, "force": force})
                            n += 1
            # the same layouts on plain text nodes of one caption
            nodes = []
            for i, nm in enumerate(combo):
                if i:
                    nodes.append(["b"])
                nodes.append(["t", "part %d" % i, LAY[nm]])
            for caplay in (None, "A"):
                for w in DW:
                    ins.append({"id": "f%d" % n, "writer": w, "set": {"langs": [{"lang": "en-US", "caps": [
                        {"s": 1000000, "e": 2000000, "layout": LAY[caplay] if caplay else None, "nodes": nodes}]}]}, "opts": {}, "force": ""})
                    n += 1
    # one writer object, two documents: what the first one left on the writer must not show in the second
    picks = [c for k, c in enumerate(ctx._cases) if k % 97 == 0][:24]
    for a in picks[:8]:
        for b in picks:
            for w in DW:
                ins.append({"id": "u%d" % n, "writer": w, "prev": _layout_set(a), "set": _layout_set(b), "opts": {}, "force": ""})
                n += 1
    # language codes that contain one another, under force= (exactly the named language is written);
    # balanced style nodes nested in one another, both levels with attributes DFXP can express
    for codes in (["en", "en-US"], ["en-US", "en"], ["pt-BR", "pt", "p"], ["zh", "zh-Hans", "zh-Hans-CN"]):
        langs = [{"lang": c, "caps": [{"s": 1000000 * (i + 1), "e": 1000000 * (i + 1) + 500000, "nodes": [["t", "cue of %s" % c]]}]}
                 for i, c in enumerate(codes)]
        for w in DW:
            for force in codes:
                ins.append({"id": "v%d" % n, "writer": w, "set": {"langs": langs}, "opts": {}, "force": force})
                n += 1
    outer_inner = [({"italics": True}, {"color": "red"}), ({"color": "red"}, {"italics": True}), ({"italics": True}, {"bold": True}),
                   ({"italics": True, "color": "blue"}, {"italics": True}), ({"class": "st1"}, {"italics": True})]
    for outer, inner in outer_inner:
        for shape in ("mid", "lead", "trail", "twice"):
            nodes = [["s", True, dict(outer)]]
            if shape != "lead":
                nodes.append(["t", "a "])
            nodes += [["s", True, dict(inner)], ["t", "b"], ["s", False, dict(inner)]]
            if shape == "twice":
                nodes += [["t", " m "], ["s", True, dict(inner)], ["t", "n"], ["s", False, dict(inner)]]
            if shape != "trail":
                nodes.append(["t", " c"])
            nodes.append(["s", False, dict(outer)])
            nodes.append(["t", " after"])
            for w in DW:
                ins.append({"id": "v%d" % n, "writer": w, "set": {"langs": [{"lang": "en-US", "caps": [
                    {"s": 1000000, "e": 2000000, "nodes": nodes}, {"s": 3000000, "e": 4000000, "nodes": [["t", "next"]]}]}],
                    "styles": {"st1": {"color": "green"}}}, "opts": {}, "force": ""})
                n += 1
    # style names that differ only in punctuation (whatever a writer does to make ids of them, the ids
    # stay distinct and every reference finds exactly one definition)
    for a, b in (("speaker:1", "speaker_1"), ("a&b", "a<b"), ("a b", "a_b"), ("1st", "_1st"), ("x.y", "x-y"), ("Caf\u00e9", "Cafe"),
                 ("st", "ST"), ("a/b", "a\\b")):
        styles = {a: {"color": "red"}, b: {"color": "blue"}}
        caps = [{"s": 1000000, "e": 2000000, "style": {"class": a}, "nodes": [["t", "one "], ["s", True, {"class": b, "italics": True}],
                                                                              ["t", "two"], ["s", False, {"class": b, "italics": True}]]},
                {"s": 3000000, "e": 4000000, "style": {"class": b}, "nodes": [["t", "three"]]}]
        for w in DW:
            ins.append({"id": "v%d" % n, "writer": w, "set": {"langs": [{"lang": "en-US", "caps": caps}], "styles": styles}, "opts": {}, "force": ""})
            n += 1
    # a language without captions is still a written language; cue timing shapes (same start and
    # different ends, equal spans that are not consecutive) for the writers that merge
    for w in DW:
        for order in (0, 1):
            langs = [{"lang": "en-US", "caps": [{"s": 1000000, "e": 2000000, "nodes": [["t", "one"]]},
                                                 {"s": 3000000, "e": 4000000, "nodes": [["t", "two"]]}]},
                     {"lang": "fr-FR", "caps": []}]
            if order:
                langs.reverse()
            for force in ("", "en-US", "fr-FR"):
                ins.append({"id": "v%d" % n, "writer": w, "set": {"langs": langs}, "opts": {}, "force": force})
                n += 1
        for spans in ([(1, 2), (1, 3)], [(1, 2), (1, 2), (1, 3)], [(1, 3), (1, 2), (1, 2)], [(1, 2), (2, 3), (1, 2)],
                      [(1, 2), (1, 3), (1, 2)], [(1, 1), (1, 1), (1, 2)], [(0, 0), (0, 0)], [(1, 3), (2, 3), (2, 3)]):
            caps = [{"s": a * 1000000, "e": b * 1000000, "nodes": [["t", "cue %d" % j]]} for j, (a, b) in enumerate(spans)]
            ins.append({"id": "v%d" % n, "writer": w, "set": {"langs": [{"lang": "en-US", "caps": caps}]}, "opts": {}, "force": ""})
            n += 1
    docs = list(corpus.readable_docs())
    for d in docs:
        for w in DW:
            for force in ["", "en-US", "zz"]:
                ins.append({"id": "d%d" % n, "writer": w, "doc": d, "opts": _opts(rng, w), "force": force})
                n += 1
    from .c03 import _rand_text
    for k in range(150 if ctx.quick else 30000):
        pos = rng.sample(POSITIONS, rng.randrange(1, 4))
        base = _string_set("text", "x")
        for p in pos:
            s = _rand_text(rng)[:12] or "x"
            extra = _string_set(p, s)
            lg, lg2 = base["langs"][0], extra["langs"][0]
            if p == "lang":
                lg["lang"] = lg2["lang"]
            elif p == "text":
                lg["caps"][0]["nodes"][0] = ["t", s]
            else:
                lg["caps"][0].setdefault("style", {}).update(lg2["caps"][0].get("style", {}))
                base.setdefault("styles", {}).update(extra.get("styles", {}))
                lg["caps"][0]["nodes"][2] = lg2["caps"][0]["nodes"][2]
                lg["caps"][0]["nodes"][4] = lg2["caps"][0]["nodes"][4]
        if rng.random() < 0.4:
            lg = base["langs"][0]
            second = copy.deepcopy(lg)
            second["lang"] = "fr-FR" if lg["lang"] != "fr-FR" else "de"
            base["langs"].append(second)
        w = rng.choice(DW)
        ins.append({"id": "r%d" % k, "writer": w, "set": base, "opts": _opts(rng, w),
                    "force": rng.choice(["", "", base["langs"][0]["lang"], "zz"])})
    return ins


def project(out, cs, merge, force):
    langs = cs.get_languages()
    keys = [["%s|%s" % (Fraction(c.start), Fraction(c.end)) for c in cs.get_captions(lg)] for lg in langs]
    rec = {"wf": False, "root_ok": False, "divs": [], "styles": [], "regions": [], "srefs": [], "rrefs": [],
           "langs": langs, "keys": keys, "merge": merge}
    if force == "":
        rec["want"] = [lg for lg in langs]
    elif force in langs:
        rec["want"] = [force]
    else:
        rec["want"] = []
    root, err = scan.parse_xml_strict(out)
    if root is None:
        rec["err"] = err
        return rec
    rec["wf"] = True
    rec["root_ok"] = root.tag == scan.TT + "tt"
    head = root.find(scan.TT + "head")
    if head is not None:
        for el in head.iter():
            xid = el.get(scan.XMLNS + "id")
            if xid is None:
                continue
            if el.tag == scan.TT + "style":
                rec["styles"].append(xid)
            elif el.tag == scan.TT + "region":
                rec["regions"].append(xid)
    body = root.find(scan.TT + "body")
    if body is not None:
        for el in body.iter():
            if el.get("style") is not None:
                # style is a list of ids; an id that itself contains blanks (class names are arbitrary
                # strings here) can only be meant as a whole
                v = el.get("style")
                rec["srefs"] += [v] if (v in rec["styles"] or not v.split()) else v.split()
            if el.get("region") is not None:
                rec["rrefs"].append(el.get("region"))
        for div in body.findall(scan.TT + "div"):
            rec["divs"].append({"lang": div.get(scan.XMLNS + "lang") or "", "region": div.get("region") or "",
                                "ps": [{"begin": p.get("begin") is not None, "end": p.get("end") is not None}
                                       for p in div.findall(scan.TT + "p")]})
    return rec


def execute(inp):
    if "doc" in inp:
        kind, text = corpus.docs()[inp["doc"]]
        cs = READERS[kind]().read(text)
    else:
        cs = build.caption_set(inp["set"])
    w = inp["writer"]
    try:
        writer = WRITERS[w](**inp["opts"])
        if "prev" in inp:
            writer.write(build.caption_set(inp["prev"]))
        out = writer.write(cs, force=inp["force"]) if inp["force"] else writer.write(cs)
    except Exception as e:
        name = type(e).__name__
        # a px layout without video size must be refused (C13): not this property's business
        rec = project("", cs, w != "DFXP", inp["force"])
        rec["raised"] = name
        if name == "RelativizationError" or "relativized" in str(e):
            rec.update({"wf": True, "root_ok": True, "divs": [{"lang": lg, "region": "", "ps": [
                {"begin": True, "end": True}] * (len(k) if w == "DFXP" else len([1 for i, x in enumerate(k) if i == 0 or k[i - 1] != x]))}
                for lg, k in zip(rec["langs"], rec["keys"]) if not rec["want"] or lg in rec["want"]]})
        return rec
    return project(out, cs, w != "DFXP", inp["force"])


def signature(inp, rec, clause):
    sig = {"clause": clause.split(" ")[0], "writer": inp["writer"]}
    if not any(d["ps"] for d in rec.get("divs", [])):
        sig["no_paragraphs"] = True
    if "pos" in inp:
        sig["pos"] = inp["pos"]
        sig["cls"] = inp["cls"]
    return sig


def nontrivial(inp, rec):
    return inp["id"] if not inp["id"].startswith("d") or inp["force"] else inp["id"]


def corrupt(inp, rec):
    if not rec["wf"] or rec.get("raised"):
        return []
    out = []
    if rec["regions"]:
        out.append(dict(rec, rrefs=[]))
        out.append(dict(rec, regions=rec["regions"] + [rec["regions"][0]]))
    if rec["srefs"]:
        out.append(dict(rec, styles=[]))
    if rec["divs"] and rec["divs"][0]["ps"]:
        c = copy.deepcopy(rec)
        c["divs"][0]["ps"] = c["divs"][0]["ps"][1:]
        out.append(c)
    out.append(dict(rec, wf=False))
    return out
