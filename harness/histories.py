"""History generators for C09 / C10: concrete casts of the abstract histories TLC enumerates
(MC_Session) and random longer histories."""
from . import session

CASTS = {
    "A": {"r1": ("SCC", {"d1": "scc2", "d2": "scc3"}), "r2": ("SAMI", {"d1": "sami4", "d2": "sami1"}),
          "w1": ("DFXP", {}), "w2": ("SRT", {})},
    "B": {"r1": ("DFXP", {"d1": "dfxp2", "d2": "dfxp1"}), "r2": ("build", {"d1": "b_styled", "d2": "b_unclosed"}),
          "w1": ("SAMI", {}), "w2": ("WebVTT", {})},
    "C": {"r1": ("WebVTT", {"d1": "vtt2", "d2": "vtt1"}), "r2": ("SRT", {"d1": "srt2", "d2": "srt1"}),
          "w1": ("DFXP-legacy", {}), "w2": ("MicroDVD", {})},
    "D": {"r1": ("SCC", {"d1": "scc1", "d2": "scc2"}), "r2": ("build", {"d1": "b_multi", "d2": "b_unclosed"}),
          "w1": ("DFXP-single", {}), "w2": ("SCC", {})},
    "E": {"r1": ("MicroDVD", {"d1": "mdvd2", "d2": "mdvd1"}), "r2": ("build", {"d1": "b_px", "d2": "b_unclosed"}),
          "w1": ("DFXP", {}), "w2": ("SAMI", {"video_width": 640, "video_height": 360})},
}


def concretise(abstract_ops, cast_name):
    cast = CASTS[cast_name]
    out = []
    for op in abstract_ops:
        if op["op"] == "read":
            kind, dm = cast[op["reader"]]
            if kind == "build":
                out.append({"op": "build", "desc": dm[op["doc"]]})
            else:
                out.append({"op": "read", "reader": op["reader"], "kind": kind, "doc": dm[op["doc"]]})
        elif op["op"] == "addstyle":
            out.append({"op": "edit", "set": "s%d" % op["set"], "edit": "add_style"})
        elif op["op"] == "editcaption":
            out.append({"op": "edit", "set": "s%d" % op["set"], "edit": "caption_style"})
        elif op["op"] == "write":
            kind, opts = cast[op["writer"]]
            out.append({"op": "write", "writer": op["writer"], "kind": kind, "opts": opts, "set": "s%d" % op["set"]})
    return out


DOC_IDS = ["srt1", "srt2", "vtt1", "vtt2", "dfxp1", "dfxp2", "dfxp_px", "sami1", "sami4", "mdvd1", "mdvd2",
           "scc1", "scc2", "scc3", "scc_long", "scc_left", "scc_badtc", "dfxp_none", "dfxp_ta", "sami_ta", "vtt_bad", "srt_none", "dfxp_sloppy", "dfxp_plang", "scc_roll", "scc_midpunct", "dfxp_fr25", "dfxp2_lc"]


def random_history(rng, steps, write_bias):
    from . import corpus
    kinds = {d: k for d, (k, _) in corpus.docs().items()}
    ops = []
    n = 0
    live = []
    for _ in range(steps):
        r = rng.random()
        if not live or r < (0.25 if write_bias else 0.4):
            if rng.random() < 0.75:
                d = rng.choice(DOC_IDS)
                # a small pool of reader objects per kind, reused or fresh
                ops.append({"op": "read", "reader": "%s-%d" % (kinds[d], rng.randrange(2)), "kind": kinds[d], "doc": d,
                            "fresh": rng.random() < 0.3})
            else:
                ops.append({"op": "build", "desc": rng.choice(list(corpus.BUILDS))})
            n += 1
            live.append("s%d" % n)
        elif r < (0.85 if write_bias else 0.6):
            kind = rng.choice(list(session.WRITER_CONFIGS))
            opts = rng.choice(session.WRITER_CONFIGS[kind])
            w = {"op": "write", "writer": "w%d" % rng.randrange(2), "kind": kind, "opts": opts,
                 "set": rng.choice(live), "fresh": rng.random() < 0.3}
            if kind in session.WRITE_ARGS and rng.random() < 0.3:
                w["args"] = rng.choice(session.WRITE_ARGS[kind])
            ops.append(w)
        elif r < 0.95:
            ops.append({"op": "edit", "set": rng.choice(live), "edit": rng.choice(session.EDITS)})
        elif len(live) > 1:
            s = rng.choice(live)
            live.remove(s)
            ops.append({"op": "drop", "set": s})
    return ops
