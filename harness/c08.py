"""C08  Any chain of conversions preserves the cue timeline and text."""
import random
from fractions import Fraction

from . import build, tlc
from .c03 import SPECIALS, _rand_text
from .num import bigint, limbs
from .registry import READERS, WRITERS

PID = "C08"
TRACE = "Trace_Chain"
RULE = ("(G) every chain of MC_Chain (all 5 + 25 ordered pairs; quick: plus no triples, thorough: all 125 triples) run "
        "twice over cue sets on the residue grid {0,1,999,1000,39999,40000,40001} us with metacharacter texts; (T) "
        "random chains of length 1-6 over random sets (up to 10 cues, printable Unicode and metacharacter sequences, "
        "1-3 languages on chains made of DFXP and SAMI only); after every hop of both passes the (start, end, lines) "
        "per language are judged by TLC against the truncation closed form. non-trivial = chain length >= 2 or a text "
        "with a metacharacter; distinct by (chain, set)")
ASSUMPTIONS = ["cues are sorted, non-overlapping, below 24 h, at least 40 ms long, each line one TEXT node with visible text",
               "a single language is compared as it is (SRT / WebVTT / MicroDVD readers name the language themselves); several languages (DFXP / SAMI chains) are matched by language code",
               "'|' does not occur in texts on chains that contain MicroDVD"]

FMTS = ["SRT", "WebVTT", "DFXP", "SAMI", "MicroDVD"]
GRID = [0, 1, 999, 1000, 39999, 40000, 40001]


def model_runs(ctx):
    res = tlc.run("MC_Chain", cfg="MC_Chain" if ctx.quick else "MC_Chain3")
    ctx.add_tlc(res, "hop abstraction composed along every chain = closed form; second pass is the identity")
    ctx._chains = [c["chain"] for c in res.cases()]
    ctx.extra["exhaustive"] = True
    ctx.extra["bound"] = "all chains of length <= %d over 5 formats x residue grid" % (2 if ctx.quick else 3)


def _grid_sets(rng, quick):
    sets = []
    texts = ["x", "a & b", "<i>x</i>", "-->", "&lt;", "&amp;lt;", "say \"hi\"", "it's", "a < b > c", "{1}{2}", "1", "é中😀"]
    pairs = [(a, b) for a in GRID for b in GRID]
    if quick:
        pairs = pairs[::5]
    for n, (a, b) in enumerate(pairs):
        sets.append([[(a, a + 2_000_000, [texts[n % len(texts)]]),
                      (b + 5_000_000, b + 7_000_000, [texts[(n + 5) % len(texts)], "second line"])]])
    # cues with an empty line inside (whitespace-normalised away, never the end of the cue), and cues
    # shorter than the coarsest resolution on the chain (both ends in one frame / millisecond)
    for n, (a, b) in enumerate(pairs[::3]):
        sets.append([[(a, a + 2_000_000, ["top", "", texts[n % len(texts)]]),
                      (b + 5_000_000, b + 7_000_000, ["x", "", "", "last"]),
                      (b + 8_000_000, b + 9_000_000, ["after"])]])
    for a in (0, 1, 40_001, 1_040_000):
        for d in (0, 1, 999, 1000, 20_000, 39_998):
            sets.append([[(1_000_000, 2_000_000, ["before"]), (3_000_000 + a, 3_000_000 + a + d, ["flash"]),
                          (5_000_000, 6_000_000, ["after"])]])
    return sets


def _rand_set(rng, chain):
    multi = all(f in ("DFXP", "SAMI") for f in chain)
    nl = rng.choice([1, 2, 3]) if multi else 1
    base = None
    langs = []
    for li in range(nl):
        if base is not None and rng.random() < 0.5:
            times = base
        else:
            t = rng.choice([0, rng.randrange(10**6), rng.randrange(10**9), rng.randrange(80_000_000_000)])
            times = []
            for _ in range(rng.randrange(1, 11)):
                d = rng.choice([40000, 40001, 80000, 999_999, 1_000_000, rng.randrange(40000, 6_000_000)])
                if t + d >= 86_399_000_000:
                    break
                times.append((t, t + d))
                t += d + rng.choice([0, 0, 1, 39999, 40000, rng.randrange(10**7)])
            if not times:
                times = [(0, 40000)]
            base = base or times
        cues = []
        for (s, e) in times:
            lines = []
            for _ in range(rng.randrange(1, 4)):
                tx = _rand_text(rng) if rng.random() < 0.6 else rng.choice(SPECIALS)
                if "MicroDVD" in chain:
                    tx = tx.replace("|", "/")
                if not tx.strip():
                    tx = "x"
                lines.append(tx)
            cues.append((s, e, lines))
        langs.append(cues)
    return langs


def inputs(ctx):
    rng = random.Random(ctx.seed * 86028121 + 8)
    ins = []
    n = 0
    gsets = _grid_sets(rng, ctx.quick)
    for ch in ctx._chains:
        for k, s in enumerate(gsets):
            if len(ch) == 3 and k % 4:
                continue
            res = 40000 if "MicroDVD" in ch else 1000
            if "SAMI" in ch and any(a // res == b // res for lang in s for a, b, _ in lang):
                # SAMI has no way to write a cue that begins and ends at the same instant (its end is
                # the next sync): cues that collapse at the chain's resolution are outside the domain
                # on chains through SAMI
                continue
            ins.append({"id": "g%d" % n, "chain": ch, "langs": s})
            n += 1
    # captions whose text sits at two places (two text nodes with different layouts, adjacent or on two
    # lines - what the DFXP reader makes of <p region=a>.. <span region=b>..</span></p>): one cue all along
    placed_sets = [[[(1000000, 2000000, ["speaker one speaker two"]), (3000000, 4000000, ["next"])]],
                   [[(1000000, 2000000, ["first line", "second line"]), (2000000, 3000000, ["one two three"]), (5000000, 6000000, ["end"])]]]
    for ch in ctx._chains:
        if "WebVTT" not in ch and "DFXP" not in ch:
            continue
        for s in placed_sets:
            ins.append({"id": "pl%d" % n, "chain": ch, "langs": s, "placed": True})
            n += 1
        # ... and with the two positions on two lines of the caption (a line break between the pieces)
        ins.append({"id": "pl%d" % n, "chain": ch, "langs": [[(1000000, 2000000, ["upper line", "lower line"]), (3000000, 4000000, ["next"])]],
                    "placed": "lines"})
        n += 1
    # a line that holds nothing but a span no target format writes (a colour): the line stays a line of
    # the cue (never a blank line that ends the cue block)
    for ch in ctx._chains:
        if ch[0] not in ("WebVTT", "DFXP", "SRT"):
            continue
        ins.append({"id": "sl%d" % n, "chain": ch, "silent": True,
                    "langs": [[(1000000, 2000000, ["first", "third"]), (3000000, 4000000, ["next"])]]})
        n += 1
    for k in range(250 if ctx.quick else 12000):
        ln = rng.choice([1, 2, 2, 3, 3, 4, 5, 6])
        if rng.random() < 0.25:
            ch = [rng.choice(["DFXP", "SAMI"]) for _ in range(ln)]
        else:
            ch = [rng.choice(FMTS) for _ in range(ln)]
        ins.append({"id": "r%d" % k, "chain": ch, "langs": _rand_set(rng, ch)})
    return ins


def _obs_time(x):
    f = Fraction(x)
    return {"int": f.denominator == 1, "v": bigint(f.numerator // f.denominator)}


def project(cs, names):
    """per language the (start, end, lines) list; a single-language set is taken as it is
    (SRT / WebVTT / MicroDVD readers name the language themselves), a multi-language set
    (DFXP / SAMI chains only) is matched by language code, extra languages appended"""
    got = {}
    for lg in cs.get_languages():
        caps = []
        for c in cs.get_captions(lg):
            caps.append({"s": _obs_time(c.start), "e": _obs_time(c.end),
                         "lines": [[ord(ch) for ch in ln] for ln in c.get_text().split("\n")]})
        got[lg] = caps
    if len(names) == 1 and len(got) == 1:
        return list(got.values())
    out = [got.pop(n, []) for n in names]
    return out + list(got.values())


def execute(inp):
    names = ["en-US", "fr-FR", "de-DE"]
    desc = {"langs": []}
    for li, cues in enumerate(inp["langs"]):
        d = build.simple_set([(s, e, lines) for s, e, lines in cues], lang=names[li])
        desc["langs"].append(d["langs"][0])
    if inp.get("placed"):
        lay_a = {"a": ["left", "top"]}
        lay_b = {"o": [["10", "%"], ["80", "%"]], "e": [["80", "%"], ["10", "%"]]}
        for lg in desc["langs"]:
            for cap in lg["caps"]:
                nodes = []
                for nd in cap["nodes"]:
                    if inp["placed"] == "lines":
                        # first line at one position, the following lines at another
                        nodes.append(["t", nd[1], lay_a if not nodes else lay_b] if nd[0] == "t" else nd)
                    elif nd[0] == "t" and " " in nd[1] and not nodes:
                        # the first line in two pieces, the cut after a blank
                        cut = nd[1].index(" ", len(nd[1]) // 2 - 1) + 1 if " " in nd[1][len(nd[1]) // 2 - 1:] else nd[1].index(" ") + 1
                        nodes += [["t", nd[1][:cut], lay_a], ["t", nd[1][cut:], lay_b]]
                    elif nd[0] == "t":
                        nodes.append(["t", nd[1], lay_b])
                    else:
                        nodes.append(nd)
                cap["nodes"] = nodes
    if inp.get("silent"):
        # between the first and the second line: a line made of a coloured span around a blank
        for lg in desc["langs"]:
            cap = lg["caps"][0]
            k = cap["nodes"].index(["b"])
            cap["nodes"][k:k + 1] = [["b"], ["s", True, {"color": "red"}], ["t", " "], ["s", False, {"color": "red"}], ["b"]]
    cs = build.caption_set(desc)
    # text placed at two positions has no line structure to keep (WebVTT writes one cue block per
    # position): for these sets a caption's text is compared as one run of words
    flat = (lambda lines: [" ".join(" ".join(lines).split())]) if inp.get("placed") else (lambda lines: lines)
    rec = {"k": "chain", "chain": inp["chain"],
           "langs": [[{"s": limbs(s), "e": limbs(e), "lines": [[ord(c) for c in ln] for ln in flat(lines)]}
                      for s, e, lines in cues] for cues in inp["langs"]],
           "hops": []}
    failed = False
    for f in inp["chain"] + inp["chain"]:
        if failed:
            rec["hops"].append({"ok": False, "langs": [], "err": "previous hop failed"})
            continue
        try:
            doc = WRITERS[f]().write(cs)
            cs = READERS[f]().read(doc)
            got = project(cs, names[:len(inp["langs"])])
            if inp.get("placed"):
                for lg in got:
                    for c in lg:
                        c["lines"] = [[ord(ch) for ch in ln] for ln in flat(["".join(chr(x) for x in ln) for ln in c["lines"]])]
            rec["hops"].append({"ok": True, "langs": got})
        except Exception as e:
            failed = True
            rec["hops"].append({"ok": False, "langs": [], "err": type(e).__name__ + ": " + str(e)[:200]})
    return rec


def signature(inp, rec, clause):
    cl = clause.split("@")[0]
    sig = {"clause": cl}
    if "@hop" in clause:
        sig["format"] = clause.split(":")[-1]
    sig["languages"] = len(inp["langs"])
    if inp.get("placed") == "lines":
        sig["positions_on_separate_lines"] = True
    return sig


def nontrivial(inp, rec):
    meta = set("&<>\"'-|{};#")
    if len(inp["chain"]) >= 2 or any(c in meta for cues in inp["langs"] for _, _, ls in cues for l in ls for c in l):
        return [inp["chain"], inp["langs"]]
    return None


def corrupt(inp, rec):
    import copy
    from .num import from_limbs
    if not all(h["ok"] for h in rec["hops"]):
        return []
    out = []
    c = copy.deepcopy(rec)
    o = c["hops"][-1]["langs"][0][0]["s"]["v"]
    c["hops"][-1]["langs"][0][0]["s"]["v"] = bigint(from_limbs(o["m"]) * o["s"] + 1000)
    out.append(c)
    c = copy.deepcopy(rec)
    ln = c["hops"][0]["langs"][0][0]["lines"][0]
    ln.append(120)
    out.append(c)
    return out
