"""Names -> pycaption classes (imported from /repo's working tree)."""
import pycaption
from pycaption.dfxp.extras import LegacyDFXPWriter, SinglePositioningDFXPWriter

READERS = {
    "DFXP": pycaption.DFXPReader, "MicroDVD": pycaption.MicroDVDReader,
    "WebVTT": pycaption.WebVTTReader, "SAMI": pycaption.SAMIReader,
    "SRT": pycaption.SRTReader, "SCC": pycaption.SCCReader,
}
ORDER = ["DFXP", "MicroDVD", "WebVTT", "SAMI", "SRT", "SCC"]
WRITERS = {
    "SRT": pycaption.SRTWriter, "WebVTT": pycaption.WebVTTWriter,
    "DFXP": pycaption.DFXPWriter, "DFXP-single": SinglePositioningDFXPWriter,
    "DFXP-legacy": LegacyDFXPWriter, "SAMI": pycaption.SAMIWriter,
    "MicroDVD": pycaption.MicroDVDWriter, "SCC": pycaption.SCCWriter,
}
FORMAT_OF_WRITER = {
    "SRT": "SRT", "WebVTT": "WebVTT", "DFXP": "DFXP", "DFXP-single": "DFXP",
    "DFXP-legacy": "DFXP", "SAMI": "SAMI", "MicroDVD": "MicroDVD", "SCC": "SCC",
}
NAME_OF_READER = {v: k for k, v in READERS.items()}
