"""C03  Written text survives a conformant parser: escaping and cue structure."""
import random

from . import build, scan, tlc
from .registry import WRITERS

PID = "C03"
TRACE = "Trace_TextCodec"
RULE = ("(G) every text of MC_TextCodec (all token strings up to the bound over a 26-token metacharacter alphabet, "
        "split over up to 3 lines incl. empty lines) written by seven writers as a one-caption set, empty lines "
        "rendered both as consecutive BREAKs and as an empty TEXT node; plus a fixed list of longer metacharacter "
        "sequences; (T) random printable Unicode (all planes) mixed with metacharacter sequences, 1-4 lines of "
        "1-40 characters. non-trivial = the text contains a metacharacter of some format or an empty line; "
        "distinct by (text, empty-line mode, writer)")
ASSUMPTIONS = ["DFXP output is decoded by lxml (strict), SAMI output by html.parser; WebVTT cue text is decoded in TLA+",
               "'|' is excluded for MicroDVD; lines consisting only of spaces are not generated (they are empty lines)",
               "an SRT line of only spaces may or may not count as blank: a cue is reported only if both readings lose it"]

TOK = ["a", "1", " ", "&", "<", ">", '"', "'", "-", "|", "{", "}", ";", "#", "x", ":", ",", "]", "!", "/",
       "lt", "amp", "gt", "nbsp", "i", "br"]
WR = ["SRT", "WebVTT", "DFXP", "DFXP-single", "DFXP-legacy", "SAMI", "MicroDVD"]
FMT = {"SRT": "SRT", "WebVTT": "WebVTT", "DFXP": "DFXP", "DFXP-single": "DFXP", "DFXP-legacy": "DFXP",
       "SAMI": "SAMI", "MicroDVD": "MicroDVD"}

SPECIALS = ["-->", "&lt;", "&amp;lt;", "&#65;", "&#x41;", "<i>x</i>", "</b>", "]]>", "<!--", "<!-- x -->", "{1}{2}", "1",
            "00:00:05,000 --> 00:00:06,000", "a --> b", "&nbsp;", "&", "<", ">", "&&", "<<", "a<b>c", "a&b;c",
            "<v Bob>hi", "<br/>", "<p>", "</p>", "</sync>", "<sync start=5>", "WEBVTT", "<![CDATA[x]]>",
            "&apos;", "&quot;", "\"q\"", "'s'", "a|b", "{y:i}", "2", "NOTE x", "&#38;", "&amp;amp;", "<c.x>",
            "- ->", "-- >", "--->", "<--", "&;", "&#;", "&#x;", "& lt;", "&lt", "<00:00:01.000>"]


def model_runs(ctx):
    res = tlc.run("MC_TextCodec", cfg="MC_TextCodec" if ctx.quick else "MC_TextCodec3")
    ctx.add_tlc(res, "escaper design models o reference decoders = identity; WebVTT encoding free of '-->'")
    ctx._cases = res.cases()
    ctx.extra["exhaustive"] = True
    ctx.extra["bound"] = "token strings up to %s over 26 tokens" % ("2 tokens / 3 lines" if ctx.quick else "3 tokens / 2 lines")
    if not ctx.quick:
        r4 = tlc.run("MC_TextCodec", cfg="MC_TextCodec4", timeout=3000)
        ctx.add_tlc(r4, "escaper round trips for all 4-token single lines (model only)")


def _rand_text(rng):
    pools = [
        lambda: chr(rng.randrange(0x21, 0x7f)),
        lambda: chr(rng.randrange(0xa1, 0x250)),
        lambda: chr(rng.randrange(0x370, 0x2000)),
        lambda: chr(rng.randrange(0x3040, 0x9fff)),
        lambda: chr(rng.randrange(0x1f300, 0x1f650)),
        lambda: chr(rng.randrange(0x10000, 0x1ffff)),
        lambda: rng.choice(SPECIALS),
        lambda: rng.choice("&<>\"'-|{};#"),
        lambda: " ",
    ]
    out = ""
    n = rng.randrange(1, 41)
    while len(out) < n:
        s = rng.choice(pools)()
        if all(c.isprintable() for c in s):
            out += s
    return out


def inputs(ctx):
    rng = random.Random(ctx.seed * 49979687 + 3)
    ins = []
    n = 0
    texts = []
    for c in ctx._cases:
        lines = ["".join(TOK[t - 1] for t in ln) for ln in c["lines"]]
        if any(l.strip(" ") == "" and l != "" for l in lines):
            continue                     # whitespace-only line: that is an empty line, generated as ""
        if not any(l.strip() for l in lines):
            continue
        texts.append(lines)
    for s in SPECIALS:
        texts.append([s])
        texts.append(["x", s])
        texts.append([s, "", "y"])
        texts.append([s + " " + s])
    # every arrangement of text lines and empty lines up to six lines (runs of several empty lines,
    # leading and trailing ones included)
    import itertools
    for ln in range(2, 7):
        for shape in itertools.product("TE", repeat=ln):
            if "T" in shape and "E" in shape:
                texts.append(["" if c == "E" else "w%d" % i for i, c in enumerate(shape)])
    for lines in texts:
        for w in WR:
            if w == "MicroDVD" and any("|" in l for l in lines):
                continue
            modes = ["breaks", "emptytext"] if "" in lines else ["breaks"]
            for m in modes:
                ins.append({"id": "g%d" % n, "writer": w, "lines": lines, "empty": m, "nb": n % 2 == 0})
                n += 1

    for k in range(1500 if ctx.quick else 60000):
        lines = [_rand_text(rng) for _ in range(rng.randrange(1, 5))]
        if rng.random() < 0.25 and len(lines) > 1:
            at = rng.randrange(1, len(lines))
            for _ in range(rng.choice([1, 1, 2, 3])):
                lines.insert(at, "")
        lines = [l if l.strip() else "" for l in lines]
        if not any(l.strip() for l in lines):
            continue
        w = rng.choice(WR)
        if w == "MicroDVD":
            lines = [l.replace("|", "/") for l in lines]
        ins.append({"id": "r%d" % k, "writer": w, "lines": lines, "empty": rng.choice(["breaks", "emptytext"]),
                    "nb": rng.random() < 0.5})
    return ins


def make_set(lines, empty_mode, neighbours=False):
    nodes = []
    for k, ln in enumerate(lines):
        if k:
            nodes.append(["b"])
        if ln != "" or empty_mode == "emptytext":
            nodes.append(["t", ln])
    caps = [{"s": 1_000_000, "e": 2_000_000, "nodes": nodes}]
    if neighbours:
        caps = ([{"s": 200_000, "e": 600_000, "nodes": [["t", PRE[0]]]}] + caps +
                [{"s": 2_500_000, "e": 3_000_000, "nodes": [["t", POST[0]]]}])
    return build.caption_set({"langs": [{"lang": "en-US", "caps": caps}]})


PRE, POST = ["zq before"], ["after qz"]


def cps(s):
    return [ord(c) for c in s]


def scan_output(w, out):
    """-> (ok, cues, cues2) ; cues = list of lists of payload lines (strings)"""
    fmt = FMT[w]
    if fmt == "SRT":
        try:
            c1 = [c["lines"] for c in scan.scan_srt(out, ws_is_blank=False)]
        except ValueError:
            c1 = None
        try:
            c2 = [c["lines"] for c in scan.scan_srt(out, ws_is_blank=True)]
        except ValueError:
            c2 = None
        if c1 is None and c2 is None:
            return False, [], []
        return True, c1 if c1 is not None else [], c2 if c2 is not None else []
    if fmt == "WebVTT":
        ok, cues = scan.scan_webvtt(out)
        return ok, [c["lines"] for c in cues], []
    if fmt == "MicroDVD":
        try:
            return True, [c["lines"] for c in scan.scan_microdvd(out)], []
        except ValueError:
            return False, [], []
    if fmt == "DFXP":
        root, err = scan.parse_xml_strict(out)
        if root is None:
            return False, [], []
        doc = scan.scan_dfxp(root)
        return True, [p["lines"] for d in doc["divs"] for p in d["ps"]], []
    doc = scan.scan_sami(out)
    # a paragraph holding nothing but a non-breaking space is SAMI's way of ending the previous cue
    # (a blank sync), not a cue
    return True, [p["lines"] for s in doc["syncs"] for p in s["ps"]
                  if "".join(p["lines"]).replace("\xa0", "").strip()], []


def execute(inp):
    w = inp["writer"]
    cs = make_set(inp["lines"], inp["empty"], inp.get("nb", False))
    rec = {"k": "text", "fmt": FMT[w], "lines": [cps(l) for l in inp["lines"]], "cues": [], "cues2": []}
    if inp.get("nb"):
        rec["pre"] = [[cps(l) for l in PRE]]
        rec["post"] = [[cps(l) for l in POST]]
    try:
        out = WRITERS[w]().write(cs)
    except Exception as e:
        rec.update({"ok": False, "err": type(e).__name__})
        return rec
    ok, c1, c2 = scan_output(w, out)
    rec["ok"] = ok
    rec["cues"] = [[cps(l) for l in c] for c in c1]
    rec["cues2"] = [[cps(l) for l in c] for c in c2]
    return rec


META = set("&<>\"'-|{};#]")


def signature(inp, rec, clause):
    sig = {"clause": clause.split(" ")[0], "writer": inp["writer"]}
    sig["empty_line"] = "" in inp["lines"]
    return sig


def nontrivial(inp, rec):
    if "" in inp["lines"] or any(c in META for l in inp["lines"] for c in l):
        return [inp["lines"], inp["empty"], inp["writer"]]
    return None


def corrupt(inp, rec):
    import copy
    if not rec["ok"] or len(rec["cues"]) != 1 or "pre" in rec:
        return []
    out = []
    c = copy.deepcopy(rec)
    for ln in c["cues"][0]:
        vis = [k for k, x in enumerate(ln) if x not in (32, 9, 10, 13, 160)]
        if vis:
            del ln[vis[len(vis) // 2]]
            c["cues2"] = c["cues"]
            out.append(c)
            break
    c = copy.deepcopy(rec)
    c["cues"] = c["cues"] + c["cues"]
    c["cues2"] = c["cues"]
    out.append(c)
    return out
