"""Renderers: abstract descriptions (JSON-able) -> pycaption API objects.

These are trivial, total serialisers.  They contain no arithmetic and no
escaping logic: numbers arrive as decimal strings and are handed to the API
unchanged (int() for integer microseconds, Fraction -> float only where the
description says the value is a non-integer the SCC reader would produce).
"""
from fractions import Fraction

from pycaption import Caption, CaptionList, CaptionNode, CaptionSet
from pycaption.geometry import (Alignment, HorizontalAlignmentEnum, Layout, Padding,
                                Point, Size, Stretch, UnitEnum, VerticalAlignmentEnum)


def size(d):
    if d is None:
        return None
    return Size(float(Fraction(d[0])), UnitEnum(d[1]))


def layout(d):
    """d = {"o": [size, size] | None, "e": ..., "p": [before, after, start, end] | None,
            "a": [h | None, v | None] | None, "w": webvtt settings | None}"""
    if d is None:
        return None
    o = d.get("o")
    e = d.get("e")
    p = d.get("p")
    a = d.get("a")
    return Layout(
        origin=Point(size(o[0]), size(o[1])) if o else None,
        extent=Stretch(size(e[0]), size(e[1])) if e else None,
        padding=Padding(*[size(x) for x in p]) if p else None,
        alignment=Alignment(
            HorizontalAlignmentEnum(a[0]) if a[0] else None,
            VerticalAlignmentEnum(a[1]) if a[1] else None) if a else None,
        webvtt_positioning=d.get("w"),
    )


def time_value(t):
    """t is an int (microseconds) or a string "num/den" (exact rational)."""
    if isinstance(t, int):
        return t
    f = Fraction(t)
    if f.denominator == 1:
        return int(f)
    return float(f)


def node(d):
    k = d[0]
    if k == "t":
        return CaptionNode.create_text(d[1], layout_info=layout(d[2]) if len(d) > 2 else None)
    if k == "b":
        return CaptionNode.create_break(layout_info=layout(d[1]) if len(d) > 1 else None)
    if k == "s":
        return CaptionNode.create_style(bool(d[1]), dict(d[2]),
                                        layout_info=layout(d[3]) if len(d) > 3 else None)
    raise ValueError(k)


def caption(d):
    kw = {}
    if "style" in d:
        kw["style"] = dict(d["style"])
    else:
        kw["style"] = {}
    return Caption(time_value(d["s"]), time_value(d["e"]), [node(n) for n in d["nodes"]],
                   layout_info=layout(d.get("layout")), **kw)


def caption_set(d):
    caps = {}
    for lg in d["langs"]:
        caps[lg["lang"]] = CaptionList([caption(c) for c in lg["caps"]],
                                       layout_info=layout(lg.get("layout")))
    styles = {k: dict(v) for k, v in d.get("styles", {}).items()}
    return CaptionSet(caps, styles=styles, layout_info=layout(d.get("layout")))


def simple_set(cues, lang="en-US"):
    """cues: list of (start, end, [lines]) -> description with TEXT/BREAK nodes."""
    caps = []
    for s, e, lines in cues:
        nodes = []
        for k, ln in enumerate(lines):
            if k:
                nodes.append(["b"])
            nodes.append(["t", ln])
        caps.append({"s": s, "e": e, "nodes": nodes})
    return {"langs": [{"lang": lang, "caps": caps}]}
