"""Document block structure (Blocks.tla): abstract documents enumerated by MC_Blocks are laid out as
WebVTT / SRT text, read by pycaption, and the returned captions are mapped back to the payload lines
they were made of.  Used by C01 (one caption per non-empty cue, in order, made of that cue's lines)."""
import re

TAG = re.compile(r"^b(\d+)j(\d+)$")
OTHER = re.compile(r"^(?:id|note|NOTE n)(\d+)$")


def layout(doc):
    """-> text of the document; the timing line of block k says k seconds"""
    fmt = doc["fmt"]
    lines = []
    if fmt == "WebVTT":
        lines.append("WEBVTT")
        if doc["hdr"]:
            lines.append("Kind: captions")
        lines += [""] * doc["hsep"]
    for k, b in enumerate(doc["blocks"], 1):
        if b["kind"] == "note":
            lines.append("NOTE n%d" % k)
            lines += ["note%d" % k] * b["n"]
        else:
            if fmt == "SRT":
                lines.append(str(k))
            elif b["id"]:
                lines.append("id%d" % k)
            if fmt == "SRT":
                lines.append("00:00:%02d,000 --> 00:00:%02d,500" % (k, k))
            else:
                lines.append("00:%02d.000 --> 00:%02d.500" % (k, k))
            lines += ["b%dj%d" % (k, j) for j in range(1, b["n"] + 1)]
        lines += [""] * b["sep"]
    return "\n".join(lines) + "\n"


def execute(inp):
    import pycaption
    doc = inp["doc"]
    text = layout(doc)
    rec = {"k": "blocks", "fmt": doc["fmt"], "doc": doc, "obs": {"ok": False, "caps": []}, "_trace": "Trace_Blocks"}
    try:
        reader = pycaption.WebVTTReader() if doc["fmt"] == "WebVTT" else pycaption.SRTReader()
        cs = reader.read(text)
        caps = []
        for c in cs.get_captions(cs.get_languages()[0]):
            ls = []
            for ln in c.get_text().split("\n"):
                m = TAG.match(ln.strip())
                o = OTHER.match(ln.strip())
                if m:
                    ls.append([int(m.group(1)), int(m.group(2))])
                elif o:
                    ls.append([int(o.group(1)), 0])
                elif ln.strip():
                    ls.append([0, 0])
            t = c.start / 1000000
            caps.append({"t": int(t) if t == int(t) else -1, "ls": ls})
        rec["obs"] = {"ok": True, "caps": caps}
    except pycaption.CaptionReadNoCaptions:
        rec["obs"] = {"ok": False, "caps": [], "err": "CaptionReadNoCaptions"}
    except Exception as e:
        rec["obs"] = {"ok": False, "caps": [], "err": type(e).__name__ + ": " + str(e)[:200]}
    return rec


def srt_blank_after_empty_cue(doc):
    """the document shape of known finding KF-C01-6"""
    if doc["fmt"] != "SRT":
        return False
    bs = doc["blocks"]
    return any(b["kind"] == "cue" and b["n"] == 0 and (b["sep"] >= 2 or (k == len(bs) - 1 and b["sep"] >= 1))
               for k, b in enumerate(bs))


def corrupt(rec):
    import copy
    out = []
    caps = rec["obs"]["caps"]
    if not rec["obs"]["ok"] or not caps:
        return out
    c = copy.deepcopy(rec)
    del c["obs"]["caps"][0]
    out.append(c)
    c = copy.deepcopy(rec)
    c["obs"]["caps"][0]["t"] += 1
    out.append(c)
    if caps[0]["ls"]:
        c = copy.deepcopy(rec)
        c["obs"]["caps"][0]["ls"][0][1] += 1
        out.append(c)
    return out
