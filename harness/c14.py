"""C14  Each language's captions stay under their language, in document order."""
import json
import os
import random
import subprocess
import sys

from . import build, render, scan, tlc

PID = "C14"
TRACE = "Trace_Langs"
RULE = ("(G) every set of MC_Langs (2 languages quick / a 20 000-case sample of the 3-language space thorough, <= 2 "
        "sorted non-overlapping cues each on a millisecond grid: all interleavings, coincidences and disjoint layouts "
        "across languages) written by SAMIWriter and DFXPWriter, the output scanned independently (sync order, "
        "paragraph placement, div order) and read back by pycaption's readers; language options (reader lang=, WebVTT "
        "lang=, DFXP force=) on every language of a sample; DFXP documents with xml:lang on div / on tt / absent under "
        "two configured defaults (PYCAPTION_DEFAULT_LANG in a child process); (T) random 1-4 language sets with up to "
        "10 cues each. non-trivial = more than one language; distinct by input")
ASSUMPTIONS = ["language codes in the base domain are pairwise unrelated by prefix (en-US, fr-FR, de, es-419)",
               "an option naming a language the set does not contain is a don't-care"]

CODES = {"aa": "en-US", "bb": "fr-FR", "cc": "de", "dd": "es-419"}
UNIT = 500   # grid step in milliseconds


def model_runs(ctx):
    res = tlc.run("MC_Langs", cfg="MC_Langs" if ctx.quick else "MC_Langs3", timeout=3000)
    ctx.add_tlc(res, "SAMI sync placement design model keeps the body sorted and every paragraph in the block of its start")
    cases = res.cases()
    if len(cases) > 20000:
        rng = random.Random(ctx.seed + 14)
        cases = rng.sample(cases, 20000)
    ctx._cases = cases
    ctx.extra["exhaustive"] = ctx.quick
    ctx.extra["bound"] = "%d languages x <= 2 cues on a %d-point grid" % ((2, 4) if ctx.quick else (3, 5))


def model_controls(ctx):
    r = tlc.run("MC_Langs", cfg="MC_Langs_neg", allow_violation=True, workers=4)
    if r.violated != "SamiModelMeetsRequirement":
        raise tlc.MachineryError("MC_Langs_neg: empty primary language not refuted")
    ctx.add_tlc(r, "negative control: with an empty first language the placement model as found loses a paragraph")
    return 1


def _abs_set(desc):
    """[{lang, cues:[{t (ms), e (ms), x}]}]"""
    return desc


def inputs(ctx):
    rng = random.Random(ctx.seed * 198491317 + 14)
    ins = []
    n = 0
    for c in ctx._cases:
        s = [{"lang": CODES[l["lang"]], "cues": [{"t": q["t"] * UNIT, "e": q["e"] * UNIT, "x": q["x"]} for q in l["cues"]]}
             for l in c["set"]]
        for f in ("SAMI", "DFXP"):
            ins.append({"id": "g%d" % n, "k": f, "set": s})
            n += 1
        # the two other DFXP writers merge captions of ONE language that share start and end; sets
        # without such captions come out of them language by language like out of DFXPWriter
        if n % 3 == 0 and all(len({(q["t"], q["e"]) for q in l["cues"]}) == len(l["cues"]) for l in s):
            for w in ("single", "legacy"):
                ins.append({"id": "g%d" % n, "k": "DFXP", "writer": w, "set": s})
                n += 1
        if n % 7 == 0:
            for l in s:
                if l["cues"]:
                    ins.append({"id": "g%d" % n, "k": "option", "via": rng.choice(["vtt", "force"]), "set": s, "name": l["lang"]})
                    n += 1
    for k in range(200 if ctx.quick else 30000):
        nl = rng.randrange(1, 5)
        s = []
        x = 0
        for li in range(nl):
            t = rng.randrange(0, 5000)
            cues = []
            for _ in range(rng.randrange(1, 11)):
                d = rng.choice([1, 40, 500, 1000, rng.randrange(1, 4000)])
                x += 1
                cues.append({"t": t, "e": t + d, "x": x})
                t += d + rng.choice([0, 0, 1, 500, rng.randrange(0, 3000)])
            s.append({"lang": list(CODES.values())[li], "cues": cues})
        ins.append({"id": "r%d" % k, "k": rng.choice(["SAMI", "DFXP"]), "set": s})
        if k % 5 == 0:
            ins.append({"id": "ro%d" % k, "k": "option", "via": rng.choice(["vtt", "force", "reader"]), "set": s,
                        "name": rng.choice(s)["lang"]})
    # translations: every language has its cues at the same times (and the last cue of one language
    # may coincide with the first of the next)
    for nl in (2, 3, 4):
        for nc in (1, 2, 3):
            for shape in ("aligned", "staggered"):
                s = []
                x = 0
                for li in range(nl):
                    cues = []
                    for j in range(nc):
                        x += 1
                        t0 = 1000 + 2000 * (j + (li if shape == "staggered" else 0) * (nc - 1))
                        cues.append({"t": t0, "e": t0 + 1500, "x": x})
                    s.append({"lang": list(CODES.values())[li], "cues": cues})
                for f, w in (("SAMI", None), ("DFXP", None), ("DFXP", "single"), ("DFXP", "legacy")):
                    ins.append(dict({"id": "tr%d" % n, "k": f, "set": s}, **({"writer": w} if w else {})))
                    n += 1
    # every reader that takes lang= files the cues under exactly that tag, whatever its (well-formed)
    # shape; force= on each of the three DFXP writers
    shapes = ["es-419", "en-001", "de-CH-1996", "sl-rozaj", "ca-valencia", "en-x-caption", "zh-Hant-TW", "und", "fr", "pt-BR",
              "en-us", "EN", "fr_CA", "Zh-hans"]
    for tag in shapes:
        s1 = [{"lang": tag, "cues": [{"t": 1000, "e": 1400, "x": 1}, {"t": 3000, "e": 3400, "x": 2}]}]
        for fmt in ("SRT", "WebVTT", "MicroDVD", "SCC"):
            ins.append({"id": "px%d" % n, "k": "option", "via": "reader", "reader": fmt, "set": s1, "name": tag})
            n += 1
    three = [{"lang": c, "cues": [{"t": 1000 * (i + 1), "e": 1000 * (i + 1) + 400, "x": 10 * (i + 1)},
                                   {"t": 5000 + 1000 * i, "e": 5400 + 1000 * i, "x": 10 * (i + 1) + 1}]}
             for i, c in enumerate(["en-US", "fr-FR", "es-419"])]
    for via in ("force", "force-single", "force-legacy"):
        for l in three:
            ins.append({"id": "px%d" % n, "k": "option", "via": via, "set": three, "name": l["lang"]})
            n += 1
    # captions of different languages naming one style class
    for base in (three, three[::-1], three[:2]):
        for f in ("SAMI", "DFXP"):
            ins.append({"id": "px%d" % n, "k": f, "set": base, "shared_class": True})
            n += 1
    # language codes that are prefixes of one another, in both orders, and names that are only a
    # prefix of a code in the set: the option selects exactly the named language
    def cu(base):
        return [{"t": base, "e": base + 400, "x": base // 100 + 1}, {"t": base + 1000, "e": base + 1400, "x": base // 100 + 2}]
    fam = [["en-US", "fr-FR", "en"], ["en", "en-US"], ["pt-BR", "pt"], ["de", "de-AT", "de-CH"], ["zh-Hans", "zh"]]
    for codes in fam:
        s = [{"lang": c, "cues": cu(100 * (i + 1))} for i, c in enumerate(codes)]
        for name in codes:
            for via in ("vtt", "force", "reader"):
                ins.append({"id": "px%d" % n, "k": "option", "via": via, "set": s, "name": name})
                n += 1
        for name in sorted({c.split("-")[0] for c in codes} - set(codes)) + ["e", "xx"]:
            ins.append({"id": "px%d" % n, "k": "option", "via": "vtt", "set": s, "name": name, "absent": True})
            n += 1
    for codes, name in ((["en-US"], "en"), (["fr-FR", "en-US"], "fr"), (["en-US", "fr-FR"], "fr-F")):
        s = [{"lang": c, "cues": cu(100 * (i + 1))} for i, c in enumerate(codes)]
        ins.append({"id": "px%d" % n, "k": "option", "via": "vtt", "set": s, "name": name, "absent": True})
        n += 1
    # sets whose first language has no cue at all
    for k in range(40 if ctx.quick else 1500):
        t = rng.randrange(0, 3000)
        cues = []
        for j in range(rng.randrange(1, 4)):
            cues.append({"t": t, "e": t + 500, "x": j + 1})
            t += 500 + rng.choice([0, 500])
        s = [{"lang": "en-US", "cues": []}, {"lang": "fr-FR", "cues": cues}]
        if rng.random() < 0.5:
            s.append({"lang": "de", "cues": [{"t": 100, "e": 200, "x": 9}]})
        ins.append({"id": "e%d" % k, "k": rng.choice(["SAMI", "SAMI", "DFXP"]), "set": s})
    # SAMI reading: language declared by class (stylesheet) or by lang attribute; codes unrelated
    # by prefix (base domain), prefix-related codes and region variants (separately reported)
    for k in range(60 if ctx.quick else 2000):
        mode = rng.choice(["class", "class", "attr", "class+attr", "attr+class"])
        fam = rng.choice(["base", "base", "prefix", "region"])
        if mode in ("class+attr", "attr+class"):
            fam = "base"
        codes = {"base": ["en-US", "fr-FR", "de"], "prefix": ["en", "en-US", "fr"], "region": ["en-US", "en-GB", "fr-FR"]}[fam]
        if mode in ("attr", "class+attr", "attr+class") and fam == "base":
            codes = ["en", "fr", "de"] if rng.random() < 0.5 else codes
        body = []
        t = rng.randrange(0, 2000)
        x = 0
        for _ in range(rng.randrange(1, 6)):
            ps = []
            for c in codes:
                if rng.random() < 0.7:
                    x += 1
                    ps.append({"lang": c, "x": 0 if rng.random() < 0.15 else x})
            if ps:
                body.append({"t": t, "ps": ps})
            t += rng.randrange(1, 3000)
        if body and any(p["x"] for sy in body for p in sy["ps"]):
            ins.append({"id": "sr%d" % k, "k": "samiread", "mode": mode, "family": fam, "codes": codes, "body": body})
    # DFXP language fallback
    for tt in ["", "en", "pt-BR"]:
        for divs in [[""], ["fr"], ["", "fr"], ["fr", ""], ["fr", "de"], ["", ""], ["fr", "fr"], ["en", ""],
                     ["fr", "de", "fr"], ["", "fr", ""], ["fr", "", "fr", ""], ["de", "fr", "fr", "de"]]:
            for default in ["und", "xx"]:
                ins.append({"id": "f%d" % n, "k": "dfxplang", "tt": tt, "divs": divs, "default": default})
                n += 1
    return ins


def _mk(s, shared_class=False):
    langs = []
    for l in s:
        caps = [{"s": q["t"] * 1000, "e": q["e"] * 1000, "nodes": [["t", "x%d" % q["x"]]]} for q in l["cues"]]
        if shared_class:
            # captions of every language name the same style class (one that says nothing about language)
            for c in caps:
                c["style"] = {"class": "basic"}
        langs.append({"lang": l["lang"], "caps": caps})
    desc = {"langs": langs}
    if shared_class:
        desc["styles"] = {"basic": {"color": "white", "font-family": "Arial"}}
    return build.caption_set(desc)


def _x(text):
    t = text.replace("\xa0", " ").strip()
    if t == "":
        return 0
    if t.startswith("x") and t[1:].isdigit():
        return int(t[1:])
    return -1


def _read_proj(cs):
    out = []
    for lg in cs.get_languages():
        out.append({"lang": lg, "cues": [{"t": int(c.start // 1000), "x": _x(c.get_text())} for c in cs.get_captions(lg)]})
    return out


def _ms(clock):
    f = scan.clock_fields(clock)
    if not f:
        return -1
    return (int(f[0]) * 3600 + int(f[1]) * 60 + int(f[2])) * 1000 + int(f[3])


def execute(inp):
    import pycaption
    k = inp["k"]
    if k in ("SAMI", "DFXP"):
        s = inp["set"]
        want = [{"lang": l["lang"], "cues": [{"t": q["t"], "x": q["x"]} for q in l["cues"]]} for l in s]
        rec = {"k": "samirt" if k == "SAMI" else "dfxprt", "set": want, "body": [], "read": [], "ok": False}
        try:
            cs = _mk(s, inp.get("shared_class", False))
            if k == "SAMI":
                out = pycaption.SAMIWriter().write(cs)
                doc = scan.scan_sami(out)
                for sy in doc["syncs"]:
                    st = sy["start"]
                    rec["body"].append({"t": int(st) if st and st.isdigit() else -1,
                                        "ps": [{"lang": p["class"] or "", "x": _x("".join(p["lines"]))} for p in sy["ps"]]})
                rec["read"] = _read_proj(pycaption.SAMIReader().read(out))
            else:
                from pycaption.dfxp.extras import LegacyDFXPWriter, SinglePositioningDFXPWriter
                W = {None: pycaption.DFXPWriter, "single": SinglePositioningDFXPWriter, "legacy": LegacyDFXPWriter}[inp.get("writer")]
                out = W().write(cs)
                root, err = scan.parse_xml_strict(out)
                d = scan.scan_dfxp(root)
                for dv in d["divs"]:
                    rec["body"].append({"lang": dv["lang"] or "", "cues": [{"t": _ms(p["begin"]), "x": _x("".join(p["lines"]))}
                                                                            for p in dv["ps"]]})
                rec["read"] = _read_proj(pycaption.DFXPReader().read(out))
            rec["ok"] = True
        except pycaption.CaptionReadNoCaptions:
            rec["ok"] = True
        except Exception as e:
            rec["err"] = type(e).__name__ + ": " + str(e)[:200]
        return rec
    if k == "option":
        s = inp["set"]
        name = inp["name"]
        want = [{"t": q["t"], "x": q["x"]} for l in s if l["lang"] == name for q in l["cues"]]
        rec = {"k": "option", "name": name, "want": want, "got": [], "gotlangs": [], "ok": False, "via": inp["via"],
               "absent": bool(inp.get("absent"))}
        try:
            cs = _mk(s)
            if inp["via"] == "vtt":
                out = pycaption.WebVTTWriter().write(cs, lang=name)
                ok, cues = scan.scan_webvtt(out)
                for c in cues:
                    f = scan.vtt_fields(c["timing"]) if c["timing"] else None
                    if f:
                        b = f[0]
                        ms = (int(b[0] or 0) * 3600 + int(b[1]) * 60 + int(b[2])) * 1000 + int(b[3])
                        rec["got"].append({"t": ms, "x": _x(" ".join(c["lines"]))})
                rec["gotlangs"] = [name]
            elif inp["via"] in ("force", "force-single", "force-legacy"):
                from pycaption.dfxp.extras import LegacyDFXPWriter, SinglePositioningDFXPWriter
                W = {"force": pycaption.DFXPWriter, "force-single": SinglePositioningDFXPWriter, "force-legacy": LegacyDFXPWriter}[inp["via"]]
                out = W().write(cs, force=name)
                root, err = scan.parse_xml_strict(out)
                d = scan.scan_dfxp(root)
                rec["gotlangs"] = [dv["lang"] or "" for dv in d["divs"]]
                for dv in d["divs"]:
                    rec["got"] += [{"t": _ms(p["begin"]), "x": _x("".join(p["lines"]))} for p in dv["ps"]]
            else:
                # reader lang=: a single-language document read under the given language code
                one = [l for l in s if l["lang"] == name]
                fmt = inp.get("reader", "SRT")
                doc = {"SRT": pycaption.SRTWriter, "WebVTT": pycaption.WebVTTWriter, "MicroDVD": pycaption.MicroDVDWriter,
                       "SCC": pycaption.SCCWriter}[fmt]().write(_mk(one))
                back = {"SRT": pycaption.SRTReader, "WebVTT": pycaption.WebVTTReader, "MicroDVD": pycaption.MicroDVDReader,
                        "SCC": pycaption.SCCReader}[fmt]().read(doc, lang=name)
                rec["gotlangs"] = back.get_languages()
                rec["got"] = [{"t": int(c.start // 1000), "x": _x(c.get_text())} for c in back.get_captions(name)]
                if fmt == "SCC":
                    # SCC times sit on the frame grid (that is C17's subject): only the cues' identity counts here
                    for k, g in enumerate(rec["got"]):
                        if k < len(want):
                            g["t"] = want[k]["t"]
            rec["ok"] = True
        except Exception as e:
            rec["err"] = type(e).__name__ + ": " + str(e)[:200]
        return rec
    if k == "samiread":
        cls = {c: "C%d" % i for i, c in enumerate(inp["codes"])}
        rec = {"k": "samiread", "body": inp["body"], "read": [], "ok": False}
        syncs = []
        for sy in inp["body"]:
            ps = []
            for p in sy["ps"]:
                inner = "&nbsp;" if p["x"] == 0 else "x%d" % p["x"]
                if inp["mode"] == "class":
                    ps.append('<P class="%s">%s</P>' % (cls[p["lang"]], inner))
                elif inp["mode"] == "class+attr":
                    # a class that only styles (no lang rule) before the lang attribute
                    ps.append('<P Class="NARRATOR" lang="%s">%s</P>' % (p["lang"], inner))
                elif inp["mode"] == "attr+class":
                    ps.append('<P lang="%s" class="NARRATOR">%s</P>' % (p["lang"], inner))
                else:
                    ps.append('<P lang="%s">%s</P>' % (p["lang"], inner))
            syncs.append('<SYNC start="%d">%s</SYNC>' % (sy["t"], "".join(ps)))
        css = "\n".join(".%s {Name: %s; lang: %s; SAMI_Type: CC;}" % (cls[c], cls[c], c) for c in inp["codes"])
        css += "\n.NARRATOR {color: yellow; font-style: italic;}"
        doc = ('<SAMI><HEAD><TITLE>t</TITLE><STYLE TYPE="text/css">\n<!--\n%s\n--></STYLE></HEAD><BODY>\n%s\n</BODY></SAMI>\n'
               % (css, "\n".join(syncs)))
        try:
            rec["read"] = _read_proj(pycaption.SAMIReader().read(doc))
            rec["ok"] = True
        except Exception as e:
            rec["err"] = type(e).__name__ + ": " + str(e)[:200]
        return rec
    # dfxplang: read in a child process whose environment carries the configured default
    divs = []
    x = 0
    body = []
    for dl in inp["divs"]:
        cues = []
        ps = []
        for j in range(2):
            x += 1
            t = x * 1000
            cues.append({"t": t, "x": x})
            ps.append(('begin="%d.000s" end="%d.500s"' % (x, x), "x%d" % x))
        divs.append({"lang": dl, "cues": cues})
        body.append((dl if dl else None, ps))
    doc = render.dfxp_doc(body, tt_lang=inp["tt"] if inp["tt"] else None)
    rec = {"k": "dfxplang", "tt": inp["tt"], "default": inp["default"], "divs": divs, "read": [], "ok": False}
    root = os.path.dirname(os.path.dirname(os.path.abspath(__file__)))
    env = dict(os.environ, PYCAPTION_DEFAULT_LANG=inp["default"], PYTHONWARNINGS="ignore",
               PYTHONPATH=os.environ.get("VERIF_REPO", "/repo") + os.pathsep + root)
    code = ("import sys, json, warnings; warnings.filterwarnings('ignore'); import pycaption; from harness import c14; "
            "cs = pycaption.DFXPReader().read(sys.stdin.read()); print(json.dumps(c14._read_proj(cs)))")
    p = subprocess.run([sys.executable, "-c", code], input=doc.encode(), stdout=subprocess.PIPE, stderr=subprocess.PIPE,
                       env=env, cwd=root)
    if p.returncode == 0:
        rec["read"] = json.loads(p.stdout.decode())
        rec["ok"] = True
    else:
        rec["err"] = p.stderr.decode()[-300:]
    return rec


def signature(inp, rec, clause):
    sig = {"clause": clause.split(" ")[0], "k": rec["k"]}
    if rec["k"] == "dfxplang":
        langs = [d["lang"] or inp["tt"] or inp["default"] for d in rec["divs"]]
        sig["same_language_twice"] = len(set(langs)) < len(langs)
    if rec["k"] == "samiread":
        sig["mode"] = inp["mode"]
        sig["family"] = inp["family"]
        sig["long_code_in_attr"] = inp["mode"] in ("attr", "class+attr", "attr+class") and any(len(c) > 2 for c in inp["codes"])
    if rec["k"] in ("samirt",):
        sig["empty_first_language"] = bool(inp["set"]) and not inp["set"][0]["cues"]
    return sig


def nontrivial(inp, rec):
    if inp["k"] in ("SAMI", "DFXP", "option"):
        return inp["id"] if len(inp["set"]) > 1 else None
    return inp["id"]


def corrupt(inp, rec):
    import copy
    out = []
    if not rec["ok"]:
        return out
    if rec["k"] in ("samirt", "dfxprt") and rec["read"] and rec["read"][0]["cues"]:
        c = copy.deepcopy(rec)
        c["read"][0]["cues"][0]["t"] += 1
        out.append(c)
        if len(rec["read"]) > 1:
            c = copy.deepcopy(rec)
            c["read"][0]["lang"], c["read"][1]["lang"] = c["read"][1]["lang"], c["read"][0]["lang"]
            out.append(c)
    if rec["k"] == "option" and rec["got"]:
        c = copy.deepcopy(rec)
        c["got"] = c["got"][1:]
        out.append(c)
    if rec["k"] == "dfxplang" and rec["read"]:
        c = copy.deepcopy(rec)
        c["read"][0]["lang"] = "zz"
        out.append(c)
    return out
