"""Executes a history of read / build / write / edit operations on real pycaption objects
in one process and records, after every step, the digest of every live set and of every
output (C09, C10).  Reference values come from harness.pristine (fresh interpreter,
another hash seed, fresh objects)."""
import json
import os
import subprocess
import sys

from . import build, corpus, project
from .registry import READERS, WRITERS

WRITER_CONFIGS = {
    "SRT": [{}], "MicroDVD": [{}], "SCC": [{}],
    "WebVTT": [{}, {"video_width": 640, "video_height": 360}],
    "SAMI": [{}, {"video_width": 640, "video_height": 360}],
    "DFXP": [{}, {"relativize": False, "fit_to_screen": False}, {"write_inline_positioning": True},
             {"video_width": 640, "video_height": 360}],
    "DFXP-single": [{}], "DFXP-legacy": [{}],
}
EDITS = ["add_style", "caption_time", "node_text", "caption_style", "retime", "layout_deep", "style_deep"]


# arguments of the write() call itself (not of the constructor): they hold for that call only
WRITE_ARGS = {"DFXP": [{"force": "fr-FR"}, {"force": "en-US"}], "DFXP-single": [{"force": "fr-FR"}], "DFXP-legacy": [{"force": "fr-FR"}],
              "WebVTT": [{"lang": "fr-FR"}]}
# constructor options of readers (a reader object made with them is reused like any other)
READER_CTOR = {"WebVTT": [{"ignore_timing_errors": False}, {"time_shift_milliseconds": 500}],
               "DFXP": [{"read_invalid_positioning": True}]}


def cfg_key(kind, opts, args=None):
    return kind + "|" + json.dumps(opts, sort_keys=True) + ("|" + json.dumps(args, sort_keys=True) if args else "")


def apply_edit(cs, name):
    from pycaption import CaptionNode
    lang = cs.get_languages()[0]
    caps = cs.get_captions(lang)
    if name == "add_style":
        cs.add_style("verif", {"color": "red"})
    elif name == "caption_time":
        caps[0].end = caps[0].end + 1000
    elif name == "node_text":
        for n in caps[0].nodes:
            if n.type_ == CaptionNode.TEXT:
                n.content = n.content + "!"
                break
    elif name == "caption_style":
        caps[0].style["verif"] = "1"
    elif name == "retime":
        cs.adjust_caption_timing(offset=1000)
    elif name == "layout_deep":
        # edit, in place, the geometry objects the first positioned caption / node holds
        from pycaption.geometry import HorizontalAlignmentEnum
        for holder in [c for c in caps] + [n for c in caps for n in c.nodes]:
            lay = holder.layout_info
            if lay is None:
                continue
            if lay.alignment is not None:
                lay.alignment.horizontal = (HorizontalAlignmentEnum.RIGHT if lay.alignment.horizontal != HorizontalAlignmentEnum.RIGHT
                                            else HorizontalAlignmentEnum.LEFT)
            if lay.origin is not None:
                lay.origin.x.value = lay.origin.x.value + 1
            if lay.padding is not None and lay.padding.start is not None:
                lay.padding.start.value = lay.padding.start.value + 1
            break
    elif name == "style_deep":
        # edit, in place, the rule dictionaries of the style table and of the first style node
        for k, rules in cs.get_styles():
            if isinstance(rules, dict):
                rules["verif-deep"] = "1"
                break
        done = False
        for c in caps:
            for n in c.nodes:
                if n.type_ == CaptionNode.STYLE and isinstance(n.content, dict):
                    n.content["verif-deep"] = True
                    done = True
                    break
            if done:
                break
    else:
        raise ValueError(name)


def make_from_term(term, docs=None):
    """term = [["read", kind, opts, docid] | ["build", id], ["edit", name]...] -> CaptionSet (fresh objects)"""
    docs = docs or corpus.docs()
    head = term[0]
    if head[0] == "read":
        ctor = head[4] if len(head) > 4 else {}
        cs = READERS[head[1]](**ctor).read(docs[head[3]][1], **head[2])
    else:
        cs = build.caption_set(corpus.BUILDS[head[1]])
    for e in term[1:]:
        apply_edit(cs, e[1])
    return cs


def write_digest(kind, opts, cs, args=None):
    try:
        out = WRITERS[kind](**opts).write(cs, **(args or {}))
        return {"raised": False, "out": project.text_digest(out)}
    except Exception as e:
        return {"raised": True, "out": "raise:" + type(e).__name__}


_PRISTINE = {}


def term_key(term):
    return json.dumps(term, sort_keys=True)


def pristine(term):
    k = term_key(term)
    if k not in _PRISTINE:
        _PRISTINE.update(pristine_batch([term]))
    return _PRISTINE[k]


def pristine_batch(terms, procs=16):
    """one fresh interpreter per term, hash seeds 1..5"""
    from concurrent.futures import ThreadPoolExecutor
    root = os.path.dirname(os.path.dirname(os.path.abspath(__file__)))

    def one(args):
        n, term = args
        env = dict(os.environ)
        env["PYTHONHASHSEED"] = str(1 + n % 5)
        env["PYTHONWARNINGS"] = "ignore"
        env["PYTHONPATH"] = os.environ.get("VERIF_REPO", "/repo") + os.pathsep + root
        p = subprocess.run([sys.executable, "-m", "harness.pristine"], input=json.dumps(term).encode(),
                           stdout=subprocess.PIPE, stderr=subprocess.PIPE, env=env, cwd=root)
        if p.returncode != 0:
            raise RuntimeError("pristine worker failed for %s: %s" % (term, p.stderr.decode()[-2000:]))
        return term_key(term), json.loads(p.stdout.decode())
    with ThreadPoolExecutor(procs) as ex:
        return dict(ex.map(one, list(enumerate(terms))))


def run_history(ops):
    """-> list of events for Trace_Session"""
    docs = corpus.docs()
    readers, writers, sets, terms = {}, {}, {}, {}
    events = []
    nset = 0

    def dumps():
        return {sid: project.set_digest(cs) for sid, cs in sets.items()}
    for op in ops:
        o = op["op"]
        if o == "read":
            rk = op["reader"]
            ctor = op.get("ctor", {})
            rk = rk + "|" + json.dumps(ctor, sort_keys=True) if ctor else rk
            if op.get("fresh") or rk not in readers:
                readers[rk] = READERS[op["kind"]](**ctor)
            nset += 1
            sid = "s%d" % nset
            term = [["read", op["kind"], op.get("opts", {}), op["doc"]] + ([ctor] if ctor else [])]
            ev = {"op": "read", "kind": op["kind"], "set": sid, "raised": False, "doc": op["doc"]}
            try:
                sets[sid] = readers[rk].read(docs[op["doc"]][1], **op.get("opts", {}))
                terms[sid] = term
            except Exception as e:
                ev["raised"] = True
                ev["err"] = type(e).__name__
            ev["dumps"] = dumps()
            ev["pristine"] = pristine(term)["dump"]
            if ev["raised"]:
                ev["dumps"][sid] = "-"
            events.append(ev)
        elif o == "build":
            nset += 1
            sid = "s%d" % nset
            term = [["build", op["desc"]]]
            sets[sid] = build.caption_set(corpus.BUILDS[op["desc"]])
            terms[sid] = term
            events.append({"op": "read", "kind": "build", "set": sid, "raised": False, "doc": op["desc"],
                           "dumps": dumps(), "pristine": pristine(term)["dump"]})
        elif o == "write":
            if op["set"] not in sets:
                continue
            wk = op["writer"]
            okey = cfg_key(op["kind"], op.get("opts", {}))
            key = cfg_key(op["kind"], op.get("opts", {}), op.get("args"))
            if op.get("fresh") or (wk, okey) not in writers:
                writers[(wk, okey)] = WRITERS[op["kind"]](**op.get("opts", {}))
            ev = {"op": "write", "kind": op["kind"], "set": op["set"], "cfg": key}
            try:
                out = writers[(wk, okey)].write(sets[op["set"]], **op.get("args", {}))
                ev["raised"] = False
                ev["out"] = project.text_digest(out)
            except Exception as e:
                ev["raised"] = True
                ev["out"] = "raise:" + type(e).__name__
            # (a set the live objects could build and fresh ones cannot has no reference output: the read
            # event already says so, and every write of it differs from "absent")
            ref = pristine(terms[op["set"]])["writes"].get(key, {"out": "absent", "raised": True})
            ev["pristine"] = ref["out"]
            ev["pristine_raised"] = ref["raised"]
            ev["dumps"] = dumps()
            events.append(ev)
        elif o == "edit":
            if op["set"] not in sets:
                continue
            sid = op["set"]
            try:
                apply_edit(sets[sid], op["edit"])
            except Exception:
                continue
            terms[sid] = terms[sid] + [["edit", op["edit"]]]
            events.append({"op": "edit", "kind": op["edit"], "set": sid, "dumps": dumps(),
                           "pristine": pristine(terms[sid])["dump"]})
        elif o == "drop":
            if op["set"] in sets:
                del sets[op["set"]]
                del terms[op["set"]]
                events.append({"op": "drop", "kind": "-", "set": op["set"], "dumps": dumps()})
    return events


def terms_of(ops):
    """the terms a history will need (for batch pre-computation of the references)"""
    out = []
    cur = {}
    n = 0
    for op in ops:
        if op["op"] in ("read", "build"):
            n += 1
            t = [["read", op["kind"], op.get("opts", {}), op["doc"]] + ([op["ctor"]] if op.get("ctor") else [])] \
                if op["op"] == "read" else [["build", op["desc"]]]
            cur["s%d" % n] = t
            out.append(t)
        elif op["op"] == "edit" and op["set"] in cur:
            cur[op["set"]] = cur[op["set"]] + [["edit", op["edit"]]]
            out.append(cur[op["set"]])
    return out
