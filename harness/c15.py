"""C15  SCC lines longer than 32 characters are never returned silently."""
import itertools
import random
import re

from . import sccgen, tlc

PID = "C15"
TRACE = "Trace_SccText"
RULE = ("(G) pop-on buffers of 1-3 rows (non-adjacent rows = captions sharing one start time, adjacent rows = lines of "
        "one caption) with every combination of row lengths from {5, 31, 32, 33, 40} in every order, one or two such "
        "buffers per stream; roll-up (depth 2-4) and paint-on streams with the same length combinations; (T) random "
        "streams in the three modes with rows of 0-40 characters. The rows actually transmitted are computed by TLC "
        "from the abstract program (SentRows); the verdict compares them with the exception / the returned lines. "
        "non-trivial = some row longer than 32 or several captions on one start; distinct by program")
ASSUMPTIONS = ["rows are plain text (no mid-row codes: their optional space would blur the 32-character boundary)"]

LENS = [5, 31, 32, 33, 40]


def model_runs(ctx):
    r = tlc.run("MC_LineLen")
    ctx.add_tlc(r, "length-scan design model (repaired): raises iff a long line exists and names all of them, for all lists of <= 4 captions over 2 start keys")
    ctx.extra["exhaustive"] = True
    ctx.extra["bound"] = "all caption lists of <= 4 over 2 start keys x {short, long} (model); all length combinations of <= 3 rows over 5 lengths in every order (replay)"


def model_controls(ctx):
    r = tlc.run("MC_LineLen", cfg="MC_LineLen_neg", allow_violation=True, workers=2)
    if r.violated != "ScanMeetsRequirement":
        raise tlc.MachineryError("MC_LineLen_neg not refuted")
    ctx.add_tlc(r, "negative control: the overwriting dictionary update is refuted")
    return 1


def _text(rng, n):
    # a length given as a pair (n, lead) asks for `lead` blanks in front (they occupy columns:
    # a row of 1 blank + 32 letters is 33 characters long)
    if isinstance(n, (tuple, list)):
        n, lead = n
        return [32] * min(lead, n - 1) + _text(rng, n - min(lead, n - 1))
    out = []
    while len(out) < n:
        w = rng.randrange(1, 8)
        out += [rng.choice(sccgen.LETTERS) for _ in range(w)] + [32]
    out = out[:n]
    if out and out[-1] == 32:
        out[-1] = rng.choice(sccgen.LETTERS)
    if out and out[0] == 32:
        out[0] = rng.choice(sccgen.LETTERS)
    return out


def _row(rng, n):
    """symbols of one row; n = length, (length, leading blanks) or {"a": .., "b": ..} for a row whose
    text comes in two runs with an italics mid-row code between them (several text nodes in the reader)"""
    if isinstance(n, dict):
        return _chars(_text(rng, n["a"])) + [{"k": "MID", "i": True}] + _chars(_text(rng, n["b"])) + \
            ([{"k": "MID", "i": False}] + _chars(_text(rng, n["c"])) if n.get("c") else [])
    return _chars(_text(rng, n))


def _chars(cps):
    syms = []
    for k in range(0, len(cps) - 1, 2):
        syms.append({"k": "CH", "a": cps[k], "b": cps[k + 1]})
    if len(cps) % 2:
        syms.append({"k": "CH", "a": cps[-1], "b": 0})
    return syms


def _tc(f):
    return [f // (30 * 3600), (f // (30 * 60)) % 60, (f // 30) % 60, f % 30]


def popon_stream(rng, buffers, adjacent, rows_override=None):
    lines = []
    f = 300
    for lens in buffers:
        rows = rows_override or (list(range(15 - len(lens) + 1, 16)) if adjacent else [2, 8, 14][:len(lens)])
        syms = [{"k": "ENM"}, {"k": "RCL"}]
        for r, n in zip(rows, lens):
            syms.append({"k": "PAC", "r": r, "c": 0, "i": False})
            syms += _row(rng, n)
        syms.append({"k": "EOC"})
        lines.append({"tc": _tc(f), "drop": False, "syms": syms})
        f += 300
        lines.append({"tc": _tc(f), "drop": False, "syms": [{"k": "EDM"}]})
        f += 60
    return lines


def roll_stream(rng, lens, depth, paint=False):
    lines = []
    f = 300
    first = True
    for n in lens:
        syms = []
        if first:
            syms.append({"k": "RDC"} if paint else {"k": "RU", "n": depth})
            first = False
        if paint:
            # paint-on rows go to distinct rows, top to bottom (writing a row again would
            # overwrite it on a decoder)
            syms.append({"k": "PAC", "r": 12 + len(lines) if len(lens) <= 4 else 1 + len(lines), "c": 0, "i": False})
        else:
            syms += [{"k": "CR"}, {"k": "PAC", "r": 15, "c": 0, "i": False}]
        syms += _row(rng, n)
        lines.append({"tc": _tc(f), "drop": False, "syms": syms})
        f += 150
    lines.append({"tc": _tc(f), "drop": False, "syms": [{"k": "CR"}] if not paint else [{"k": "EDM"}]})
    return lines


def inputs(ctx):
    rng = random.Random(ctx.seed * 256203221 + 15)
    ins = []
    n = 0
    combos = [c for k in (1, 2, 3) for c in itertools.product(LENS, repeat=k)]
    for lens in combos:
        for adjacent in (False, True):
            if ctx.quick and len(lens) == 3 and (n % 3):
                n += 1
                continue
            ins.append({"id": "p%d" % n, "lines": popon_stream(rng, [list(lens)], adjacent), "doubled": n % 2 == 0})
            n += 1
    for a in itertools.product(LENS, repeat=2):
        for b in itertools.product(LENS, repeat=2):
            if ctx.quick and (n % 5):
                n += 1
                continue
            ins.append({"id": "q%d" % n, "lines": popon_stream(rng, [list(a), list(b)], False), "doubled": False})
            n += 1
    for lens in combos:
        if ctx.quick and len(lens) == 3 and (n % 4):
            n += 1
            continue
        ins.append({"id": "u%d" % n, "lines": roll_stream(rng, lens, 2 + n % 3), "doubled": n % 2 == 0})
        n += 1
        ins.append({"id": "t%d" % n, "lines": roll_stream(rng, lens, 2, paint=True), "doubled": n % 2 == 0})
        n += 1
    # rows that begin with blanks: the blanks count (first / middle / last row of a caption, rows that
    # are captions of their own, all three modes)
    for lead in (1, 4):
        for total in (32, 33):
            row = (total, lead)
            for lens in ([row], [row, 10], [10, row], [10, row, 10], [row, row]):
                for adjacent in (False, True):
                    ins.append({"id": "l%d" % n, "lines": popon_stream(rng, [list(lens)], adjacent), "doubled": n % 2 == 0})
                    n += 1
                ins.append({"id": "l%d" % n, "lines": roll_stream(rng, lens, 2 + n % 3), "doubled": n % 2 == 0})
                n += 1
                ins.append({"id": "l%d" % n, "lines": roll_stream(rng, lens, 2, paint=True), "doubled": n % 2 == 0})
                n += 1
    # rows whose text is sent in several runs (mid-row italics in between): each run fits, the row does
    # not; and the same rows read with simulate_roll_up=True in the modes the option does not touch
    for rich in ({"a": 20, "b": 14}, {"a": 16, "b": 17}, {"a": 15, "b": 15}, {"a": 12, "b": 12, "c": 12}, {"a": 32, "b": 2}):
        for lens in ([rich], [10, rich], [rich, 10], [rich, rich]):
            for adjacent in (False, True):
                ins.append({"id": "m%d" % n, "lines": popon_stream(rng, [list(lens)], adjacent), "doubled": n % 2 == 0})
                n += 1
            ins.append({"id": "m%d" % n, "lines": roll_stream(rng, lens, 2 + n % 3), "doubled": n % 2 == 0})
            n += 1
            ins.append({"id": "m%d" % n, "lines": roll_stream(rng, lens, 2, paint=True), "doubled": n % 2 == 0})
            n += 1
    for lens in ([33], [10, 40], [32, 33], [31], [{"a": 20, "b": 14}]):
        for adjacent in (False, True):
            ins.append({"id": "o%d" % n, "lines": popon_stream(rng, [list(lens)], adjacent), "doubled": n % 2 == 0, "sim": True})
            n += 1
        ins.append({"id": "o%d" % n, "lines": roll_stream(rng, lens, 2, paint=True), "doubled": n % 2 == 0, "sim": True})
        n += 1
    # a row addressed twice in one buffer (the captions it yields share start time and screen row)
    for lens, rows in (([36, 5, 5], [15, 2, 15]), ([5, 5, 36], [15, 2, 15]), ([5, 36, 5, 34], [3, 9, 3, 9])):
        ins.append({"id": "w%d" % n, "lines": popon_stream(rng, [list(lens)], False, rows_override=rows), "doubled": n % 2 == 0})
        n += 1
    # where a row is put says nothing about its length: rows that start at a column (preamble indent),
    # alone or as a second burst on the row another burst already wrote to - also when the burst would
    # run past the right edge of the screen - are judged by the characters sent, like any other row
    def burst(r, c, k):
        return [{"k": "PAC", "r": r, "c": c, "i": False}] + _chars(_text(rng, k))
    shapes = [[(15, 8, 28)], [(15, 4, 29)], [(15, 28, 5)], [(15, 28, 4)], [(15, 16, 16)], [(2, 8, 28), (3, 0, 10)],
              [(14, 0, 10), (15, 8, 28)],
              [(15, 0, 4), (15, 16, 16)], [(15, 0, 4), (15, 16, 20)], [(15, 0, 20), (15, 20, 24)], [(15, 0, 4), (15, 8, 24)],
              [(3, 0, 12), (3, 12, 20)], [(3, 0, 12), (3, 16, 20), (4, 0, 5)], [(15, 0, 4), (15, 16, 33)], [(15, 8, 33)]]
    for sh in shapes:
        for mode in ("pop", "paint", "roll"):
            syms = []
            for (r, c, k) in sh:
                syms += burst(r if mode != "roll" else 15, c, k)
            if mode == "pop":
                lines = [{"tc": _tc(300), "drop": False, "syms": [{"k": "ENM"}, {"k": "RCL"}] + syms + [{"k": "EOC"}]},
                         {"tc": _tc(600), "drop": False, "syms": [{"k": "EDM"}]}]
            elif mode == "paint":
                lines = [{"tc": _tc(300), "drop": False, "syms": [{"k": "RDC"}] + syms}, {"tc": _tc(600), "drop": False, "syms": [{"k": "EDM"}]}]
            else:
                lines = [{"tc": _tc(300), "drop": False, "syms": [{"k": "RU", "n": 2}, {"k": "CR"}] + syms},
                         {"tc": _tc(600), "drop": False, "syms": [{"k": "CR"}]}]
            for doubled in (False, True):
                ins.append({"id": "c%d" % n, "lines": lines, "doubled": doubled})
                n += 1
    # a programme that starts with the very first frame (the first caption then starts at 0): its rows
    # are measured like any other
    for lens in ([34], [10, 36], [33, 10], [20]):
        for paint in (False, True):
            lines = roll_stream(rng, lens, 2, paint=paint)
            f0 = 0
            for ln in lines:
                ln["tc"] = _tc(f0)
                f0 += 150
            for doubled in (False, True):
                ins.append({"id": "z%d" % n, "lines": lines, "doubled": doubled})
                n += 1
    # what one document's scan found must not reach the next read in the same process: a screen whose
    # short piece is followed by a piece with a long line (refused), then a document that holds only
    # the short piece (fine) - and the other way round
    short = _chars([ord(c) for c in "Short one"])
    for long_len in (36, 40):
        longrow = _chars(_text(rng, long_len))
        for order in ("short-first", "long-first"):
            pieces = [[{"k": "PAC", "r": 12, "c": 0, "i": False}] + short, [{"k": "PAC", "r": 15, "c": 0, "i": False}] + longrow]
            if order == "long-first":
                pieces.reverse()
            bad = [{"tc": _tc(300), "drop": False, "syms": [{"k": "ENM"}, {"k": "RCL"}] + pieces[0] + pieces[1] + [{"k": "EOC"}]},
                   {"tc": _tc(600), "drop": False, "syms": [{"k": "EDM"}]}]
            good = [{"tc": _tc(300), "drop": False, "syms": [{"k": "ENM"}, {"k": "RCL"}, {"k": "PAC", "r": 12, "c": 0, "i": False}] + short + [{"k": "EOC"}]},
                    {"tc": _tc(600), "drop": False, "syms": [{"k": "EDM"}]}]
            for doubled in (False, True):
                ins.append({"id": "h%d" % n, "lines": good, "before": [bad], "doubled": doubled})
                n += 1
                ins.append({"id": "h%d" % n, "lines": bad, "before": [bad, good], "doubled": doubled})
                n += 1
    for k in range(300 if ctx.quick else 60000):
        mode = rng.choice(["pop", "pop", "roll", "paint"])
        lens = [rng.choice([rng.randrange(0, 41), 31, 32, 33]) for _ in range(rng.randrange(1, 5))]
        lens = [x for x in lens if x > 0] or [5]
        if rng.random() < 0.3:
            lens = [(x, rng.choice([0, 1, 2, 5])) if x > 1 else x for x in lens]
        if mode == "pop":
            bufs = [lens[:3]] + ([[rng.randrange(1, 41)]] if rng.random() < 0.4 else [])
            lines = popon_stream(rng, bufs, rng.random() < 0.5)
        else:
            lines = roll_stream(rng, lens, rng.randrange(2, 5), paint=(mode == "paint"))
        ins.append({"id": "r%d" % k, "lines": lines, "doubled": rng.random() < 0.5})
    return ins


_LEN = re.compile(r"^(.*) - Length (\d+)$")


def execute(inp):
    import pycaption
    text, abs_lines = sccgen.render_program(inp["lines"], inp["doubled"])
    obs = {"ok": False, "err": "", "named": [], "caps": []}
    for earlier in inp.get("before", []):
        # documents read earlier in this process (their results are judged as inputs of their own)
        try:
            pycaption.SCCReader().read(sccgen.render_program(earlier, inp["doubled"])[0])
        except Exception:
            pass
    try:
        cs = pycaption.SCCReader().read(text, simulate_roll_up=True) if inp.get("sim") else pycaption.SCCReader().read(text)
        obs["ok"] = True
        for c in cs.get_captions(cs.get_languages()[0]):
            obs["caps"].append([[ord(ch) for ch in ln] for ln in c.get_text().split("\n")])
    except Exception as e:
        obs["err"] = type(e).__name__
        if obs["err"] == "CaptionLineLengthError":
            msg = e.args[0]
            body = msg.split("Lines longer than 32:\n", 1)[-1]
            for seg in body.split("\n"):
                seg = re.sub(r"^around \d+:\d+:\d+\.\d+ - ", "", seg)
                m = _LEN.match(seg)
                if m:
                    obs["named"].append([ord(ch) for ch in m.group(1)])
    return {"k": "linelen", "prog": abs_lines, "obs": obs}


def signature(inp, rec, clause):
    return {"clause": clause.split(" ")[0]}


def nontrivial(inp, rec):
    return inp["id"]


def corrupt(inp, rec):
    import copy
    out = []
    if rec["obs"]["err"] == "CaptionLineLengthError":
        c = copy.deepcopy(rec)
        c["obs"]["named"] = []
        out.append(c)
        c = copy.deepcopy(rec)
        c["obs"].update({"ok": True, "err": "", "caps": [[[65] * 5]]})
        out.append(c)
    elif rec["obs"]["ok"] and rec["obs"]["caps"]:
        c = copy.deepcopy(rec)
        c["obs"]["caps"][0][0] = [65] * 33
        out.append(c)
        c = copy.deepcopy(rec)
        c["obs"].update({"ok": False, "err": "CaptionLineLengthError", "named": [[65] * 33]})
        out.append(c)
    return out
