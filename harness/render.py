"""Renderers: abstract documents -> concrete text of the six input formats.

Total, trivial serialisers of the formats' literal syntax: digits are printed as
given, text is inserted as given (callers that need escaping pass already
serialised text).  No arithmetic.
"""


def digs(ds):
    return "".join(str(d) for d in ds)


def stamp(sp, sep="."):
    k = sp["kind"]
    if k == "hms":
        s = ""
        if sp["h"]:
            s += digs(sp["h"]) + ":"
        s += digs(sp["m"]) + ":" + digs(sp["s"])
        if sp["frames"]:
            s += ":" + digs(sp["frames"])
        elif sp["frac"]:
            s += sep + digs(sp["frac"])
        return s
    if k == "off":
        return digs(sp["i"]) + ("." + digs(sp["f"]) if sp["f"] else "") + sp["metric"]
    if k in ("frame", "ms"):
        return digs(sp["n"])
    raise ValueError(k)


def srt_doc(cues):
    """cues: [(begin_text, end_text, [lines])]; blocks separated by exactly one blank line"""
    blocks = []
    for n, (b, e, lines) in enumerate(cues, 1):
        blocks.append("\n".join(["%d" % n, "%s --> %s" % (b, e)] + list(lines)))
    return "\n\n".join(blocks) + "\n"


def webvtt_doc(cues, header="WEBVTT"):
    """cues: [(begin_text, end_text, [lines], settings or '')]"""
    blocks = [header]
    for c in cues:
        b, e, lines = c[0], c[1], c[2]
        st = c[3] if len(c) > 3 and c[3] else ""
        blocks.append("\n".join(["%s --> %s%s" % (b, e, (" " + st) if st else "")] + list(lines)))
    return "\n\n".join(blocks) + "\n"


def dfxp_doc(divs, tt_lang="en", head=""):
    """divs: [(lang or None, [(attrs_text, inner_xml)])] ; attrs_text e.g. 'begin="1s" end="2s"'"""
    out = ['<?xml version="1.0" encoding="utf-8"?>',
           '<tt xmlns="http://www.w3.org/ns/ttml" xmlns:tts="http://www.w3.org/ns/ttml#styling"%s>'
           % ((' xml:lang="%s"' % tt_lang) if tt_lang is not None else ""),
           " <head>%s</head>" % head, " <body>"]
    for lang, ps in divs:
        out.append('  <div%s>' % ((' xml:lang="%s"' % lang) if lang is not None else ""))
        for attrs, inner in ps:
            out.append("   <p %s>%s</p>" % (attrs, inner))
        out.append("  </div>")
    out += [" </body>", "</tt>"]
    return "\n".join(out) + "\n"


def microdvd_doc(cues, fps_text=None):
    """cues: [(start_digits_text, end_digits_text, [lines])]"""
    out = []
    if fps_text is not None:
        out.append("{0}{0}%s" % fps_text)
    for s, e, lines in cues:
        out.append("{%s}{%s}%s" % (s, e, "|".join(lines)))
    return "\n".join(out) + "\n"


def sami_doc(langs, syncs):
    """langs: [(class_name, lang_code)]; syncs: [(start_text, [(class_name, inner_html)])]"""
    css = "\n".join(".%s {Name: %s; lang: %s; SAMI_Type: CC;}" % (c, c, l) for c, l in langs)
    out = ['<SAMI><HEAD><TITLE>t</TITLE><STYLE TYPE="text/css">', "<!--", css, "--></STYLE></HEAD><BODY>"]
    for start, ps in syncs:
        out.append('<SYNC start="%s">%s</SYNC>' % (
            start, "".join('<P class="%s">%s</P>' % (c, inner) for c, inner in ps)))
    out.append("</BODY></SAMI>")
    return "\n".join(out) + "\n"
