"""Independent tokenisers of pycaption's output formats (none of them pycaption's).

They only *tokenise*: they return digit strings, raw payload strings, attribute
strings.  Arithmetic, entity-decoding rules for WebVTT, whitespace normalisation,
ordering and consistency rules are evaluated in TLA+ on these tokens.
"""
import re
from html.parser import HTMLParser

TT = "{http://www.w3.org/ns/ttml}"
TTS = "{http://www.w3.org/ns/ttml#styling}"
XMLNS = "{http://www.w3.org/XML/1998/namespace}"


# ---------------------------------------------------------------- SRT
def scan_srt(text, ws_is_blank=False):
    """SRT block grammar: index line, timing line, text lines until a blank line.
    Returns list of {"index", "timing", "lines"}; raises ValueError when the document
    does not follow the grammar (the caller reports that as an observation)."""
    lines = text.split("\n")

    def blank(l):
        return (l.strip() == "") if ws_is_blank else (l == "" or l == "\r")
    cues = []
    i = 0
    n = len(lines)
    while i < n:
        if blank(lines[i]):
            i += 1
            continue
        idx = lines[i]
        if i + 1 >= n:
            raise ValueError("index line without timing line: %r" % idx)
        timing = lines[i + 1]
        if "-->" not in timing:
            raise ValueError("expected timing line, got %r" % timing)
        j = i + 2
        body = []
        while j < n and not blank(lines[j]):
            body.append(lines[j])
            j += 1
        cues.append({"index": idx, "timing": timing, "lines": body})
        i = j
    return cues


_SRT_T = re.compile(r"^(\d+):(\d+):(\d+),(\d+) --> (\d+):(\d+):(\d+),(\d+)$")


def srt_fields(timing):
    m = _SRT_T.match(timing)
    if not m:
        return None
    g = m.groups()
    return g[:4], g[4:]


# ---------------------------------------------------------------- WebVTT
def scan_webvtt(text):
    """W3C WebVTT block structure.  Returns (header_ok, cues) with cues
    {"id", "timing", "lines"}; a payload line containing "-->" ends the cue and
    starts a new (malformed) block, exactly as the W3C parser would see it."""
    text = text.replace("\r\n", "\n").replace("\r", "\n")
    lines = text.split("\n")
    header_ok = bool(lines) and (lines[0] == "WEBVTT" or lines[0].startswith("WEBVTT ")
                                 or lines[0].startswith("WEBVTT\t"))
    i = 1
    n = len(lines)
    # header block runs until the first empty line
    while i < n and lines[i] != "":
        i += 1
    cues = []
    while i < n:
        if lines[i] == "":
            i += 1
            continue
        ident = None
        if "-->" not in lines[i]:
            ident = lines[i]
            i += 1
            if i >= n or lines[i] == "":
                # a block without timing line (e.g. NOTE) - not a cue
                cues.append({"id": ident, "timing": None, "lines": []})
                continue
            if "-->" not in lines[i]:
                # identifier followed by something that is not a timing line: skip block
                block = [ident]
                while i < n and lines[i] != "":
                    block.append(lines[i])
                    i += 1
                cues.append({"id": ident, "timing": None, "lines": block[1:]})
                continue
        timing = lines[i]
        i += 1
        body = []
        while i < n and lines[i] != "" and "-->" not in lines[i]:
            body.append(lines[i])
            i += 1
        cues.append({"id": ident, "timing": timing, "lines": body})
    return header_ok, cues


_VTT_T = re.compile(r"^(?:(\d+):)?(\d+):(\d+)\.(\d+) --> (?:(\d+):)?(\d+):(\d+)\.(\d+)(?: (.*))?$")


def vtt_fields(timing):
    m = _VTT_T.match(timing)
    if not m:
        return None
    g = m.groups()
    return (g[0], g[1], g[2], g[3]), (g[4], g[5], g[6], g[7]), (g[8] or "")


# ---------------------------------------------------------------- MicroDVD
_MDVD = re.compile(r"^\{([^}]*)\}\{([^}]*)\}(.*)$", re.S)


def scan_microdvd(text):
    cues = []
    for line in text.split("\n"):
        if line == "":
            continue
        m = _MDVD.match(line)
        if not m:
            raise ValueError("not a MicroDVD line: %r" % line)
        cues.append({"start": m.group(1), "end": m.group(2), "lines": m.group(3).split("|")})
    return cues


# ---------------------------------------------------------------- DFXP (strict XML)
def parse_xml_strict(text):
    """Strict XML 1.0 parse with expat and with lxml (no recovery).
    Returns (tree_or_None, error_or_None).  lxml's complaint that an xml:id value is
    not an NCName is an xml:id validity rule, not well-formedness, and is ignored."""
    import xml.parsers.expat
    from lxml import etree
    data = text.encode("utf-8")
    p = xml.parsers.expat.ParserCreate()
    try:
        p.Parse(data, True)
    except xml.parsers.expat.ExpatError as e:
        return None, "expat: %s" % e
    try:
        parser = etree.XMLParser(recover=False, resolve_entities=False, no_network=True)
        root = etree.fromstring(data, parser)
    except etree.XMLSyntaxError as e:
        msg = str(e)
        if "xml:id" in msg and "NCName" in msg:
            parser = etree.XMLParser(recover=True, resolve_entities=False, no_network=True)
            root = etree.fromstring(data, parser)
            return root, None
        return None, "lxml: %s" % msg
    return root, None


def dfxp_paragraph_lines(p):
    """text of a <p> split at <br/>, in document order (all descendants)"""
    lines = [""]

    def walk(el):
        if el.text:
            lines[-1] += el.text
        for ch in el:
            if ch.tag == TT + "br":
                lines.append("")
            else:
                walk(ch)
            if ch.tail:
                lines[-1] += ch.tail
    walk(p)
    return lines


def scan_dfxp(root):
    """-> {"lang": tt xml:lang, "divs": [{"lang", "region", "ps": [{"begin","end","region","style","lines"}]}]}"""
    out = {"root": root.tag, "lang": root.get(XMLNS + "lang"), "divs": []}
    body = root.find(TT + "body")
    if body is None:
        return out
    for div in body.findall(TT + "div"):
        d = {"lang": div.get(XMLNS + "lang"), "region": div.get("region"), "ps": []}
        for p in div.findall(TT + "p"):
            d["ps"].append({"begin": p.get("begin"), "end": p.get("end"), "region": p.get("region"),
                            "style": p.get("style"), "lines": dfxp_paragraph_lines(p), "el": p})
        out["divs"].append(d)
    return out


_CLOCK = re.compile(r"^(\d+):(\d+):(\d+)\.(\d+)$")


def clock_fields(s):
    m = _CLOCK.match(s or "")
    return m.groups() if m else None


# ---------------------------------------------------------------- SAMI (HTML)
class _Sami(HTMLParser):
    def __init__(self):
        super().__init__(convert_charrefs=True)
        self.syncs = []          # {"start": str, "ps": [{"class", "lang", "lines", "spans"}]}
        self.cur_p = None
        self.in_style = False
        self.style = ""
        self.stack = []

    def handle_starttag(self, tag, attrs):
        a = dict(attrs)
        if tag == "style":
            self.in_style = True
        elif tag == "sync":
            self.cur_p = None
            self.syncs.append({"start": a.get("start"), "ps": []})
        elif tag == "p":
            self.cur_p = {"class": a.get("class"), "lang": a.get("lang"), "lines": [""], "tags": []}
            if self.syncs:
                self.syncs[-1]["ps"].append(self.cur_p)
        elif tag == "br":
            if self.cur_p is not None:
                self.cur_p["lines"].append("")
        elif self.cur_p is not None:
            self.cur_p["tags"].append(("open", tag, a, len(self.cur_p["lines"]) - 1, len(self.cur_p["lines"][-1])))

    def handle_startendtag(self, tag, attrs):
        if tag == "br":
            if self.cur_p is not None:
                self.cur_p["lines"].append("")
        else:
            self.handle_starttag(tag, attrs)
            self.handle_endtag(tag)

    def handle_endtag(self, tag):
        if tag == "style":
            self.in_style = False
        elif tag == "p":
            self.cur_p = None
        elif tag == "sync":
            self.cur_p = None
        elif self.cur_p is not None:
            self.cur_p["tags"].append(("close", tag, {}, len(self.cur_p["lines"]) - 1, len(self.cur_p["lines"][-1])))

    def handle_data(self, data):
        if self.in_style:
            self.style += data
        elif self.cur_p is not None:
            self.cur_p["lines"][-1] += data

    def handle_comment(self, data):
        if self.in_style:
            self.style += data


def scan_sami(text):
    p = _Sami()
    p.feed(text)
    p.close()
    return {"syncs": p.syncs, "style": p.style}
