"""C06  SCC captions appear and disappear at the frames their commands are sent."""
import random

from . import sccgen, tlc
from .c05 import in_domain, read_scc

PID = "C06"
TRACE = "Trace_Scc"
RULE = ("(G) a grid of pop-on programs: 1-3 one-row captions x erase inline / on its own line / absent x gap to the "
        "next End-Of-Caption of 0-8 frames x drop / non-drop timecode x single / doubled codes x offset 0, 1, 2 s x "
        "End-Of-Caption at several positions inside a long line; flash captions shorter than 50 ms; (T) random "
        "programs with timecodes up to 23:59:59:29, random multi-row loads and random offsets below the first start. "
        "Start and end of every caption are compared by TLC (exact arithmetic in thirds of a microsecond, 2 ns "
        "tolerance) with the frame of the End-Of-Caption / Erase-Displayed-Memory word; the timing error is demanded "
        "exactly when a displayed duration is below 50 ms. non-trivial = offset, doubled codes, a gap below 9 frames "
        "or an uncleared last caption; distinct by program")
ASSUMPTIONS = ["a gap of exactly five frames may or may not be closed (the statement says shorter than five, a pinned unit test closes five)",
               "floating point: observed times are compared at 2 ns; offsets do not exceed the first caption's start",
               "every load erases the non-displayed memory first (well-formed streams)"]


def model_runs(ctx):
    r = tlc.run("MC_SccTiming", timeout=3000)
    ctx.add_tlc(r, "timing design model (queue, batch rule, 4 s default) meets the timing requirement on all event sequences of <= 3 captions")
    ctx.extra["exhaustive"] = True
    ctx.extra["bound"] = "event sequences of <= 3 captions x gaps {0..8, 40} x erase after 30..32 frames or none; replay grid below"


def model_controls(ctx):
    r = tlc.run("MC_SccTiming", cfg="MC_SccTiming_neg", allow_violation=True, workers=4)
    if r.violated != "TimingModelMeetsRequirement":
        raise tlc.MachineryError("MC_SccTiming_neg not refuted")
    ctx.add_tlc(r, "negative control: joining gaps of six frames is refuted")
    return 1


def _tc(f):
    return [f // (30 * 3600), (f // (30 * 60)) % 60, (f // 30) % 60, f % 30]


def _load(rng, row, extra=0):
    body = [{"k": "PAC", "r": row, "c": 0, "i": False}]
    for _ in range(1 + extra):
        body.append({"k": "CH", "a": rng.choice(sccgen.LETTERS), "b": rng.choice(sccgen.LETTERS)})
    return body


def grid_program(rng, ncaps, erase, gap, drop, pad):
    """captions on rows far apart; `gap` frames between an erase and the next End-Of-Caption"""
    lines = []
    f = 300
    rows = [2, 8, 14]
    for c in range(ncaps):
        syms = [{"k": "ENM"}, {"k": "RCL"}] + _load(rng, rows[c], pad)
        # the line is placed so that its End-Of-Caption falls `gap` frames after the last erase
        lines.append({"syms": syms + [{"k": "EOC"}], "eoc_at": f})
        f += 45
        if erase == "separate" or (erase == "inline" and False):
            lines.append({"syms": [{"k": "EDM"}], "at": f})
            f += gap
        elif erase == "none":
            f += 40
    return lines


def inputs(ctx):
    rng = random.Random(ctx.seed * 236887699 + 6)
    ins = []
    n = 0
    for ncaps in (1, 2, 3):
        for erase in ("separate", "none", "inline"):
            for gap in range(0, 9):
                for drop in (False, True):
                    for doubled in (False, True):
                        for offset in (0, 1, 2, 0.5, 1.25):
                            if ctx.quick and (n % 4):
                                n += 1
                                continue
                            ins.append({"id": "g%d" % n, "spec": [ncaps, erase, gap], "drop": drop, "doubled": doubled,
                                        "offset": offset, "pad": rng.choice([0, 0, 3, 10])})
                            n += 1
    # flash captions: erased a frame or two after they appear (below 50 ms)
    for short in (1, 2, 3):
        for drop in (False, True):
            ins.append({"id": "f%d" % n, "spec": [2, "flash", short], "drop": drop, "doubled": False, "offset": 0, "pad": 0})
            n += 1
    # timecode labels on field boundaries: first frames of a minute (the labels drop-frame counting
    # skips, ;00 and ;01, and the first it keeps, ;02), tenth minutes, hours, last frame of a second /
    # minute / hour - as the label of the line carrying the End-Of-Caption and of the erase line
    labels = [[0, 7, 0, 0], [0, 7, 0, 1], [0, 7, 0, 2], [0, 10, 0, 0], [0, 10, 0, 1], [1, 0, 0, 0], [1, 0, 0, 1],
              [0, 0, 59, 29], [0, 59, 59, 29], [0, 1, 0, 0], [0, 9, 0, 1], [0, 0, 1, 0], [0, 0, 4, 0], [23, 59, 50, 0],
              [0, 19, 0, 0], [0, 20, 0, 1], [2, 13, 0, 0], [0, 0, 30, 29]]
    for lab in labels:
        fr = ((lab[0] * 60 + lab[1]) * 60 + lab[2]) * 30 + lab[3]
        for drop in (False, True):
            for doubled in (False, True):
                load = [{"k": "ENM"}, {"k": "RCL"}] + _load(rng, 14, 1) + [{"k": "EOC"}]
                for role in ("eoc", "edm"):
                    a, b = (fr, fr + 95) if role == "eoc" else (max(fr - 95, 0), fr)
                    if a == b:
                        continue
                    ins.append({"id": "b%d" % n, "lines": [{"tc": _tc(a), "drop": drop, "syms": load},
                                                            {"tc": _tc(b), "drop": drop, "syms": [{"k": "EDM"}]}],
                                "doubled": doubled, "offset": 0})
                    n += 1
    # an offset that is exactly the first caption's start (the caption then starts at 0 and is still a
    # caption), and a caption shown for a frame or two followed by a last caption that is never erased
    for dbl in (False, True):
        words = 3 * (2 if dbl else 1) + 1
        for first_eoc, off in ((930, 31), (900, 30), (1800, 60), (930, 30.5)):
            body = [{"k": "ENM"}, {"k": "RCL"}] + _load(rng, 14, 0) + [{"k": "EOC"}]
            body2 = [{"k": "ENM"}, {"k": "RCL"}] + _load(rng, 2, 0) + [{"k": "EOC"}]
            for tail in ("erased", "open"):
                lines = [{"tc": _tc(first_eoc - words), "drop": True, "syms": body},
                         {"tc": _tc(first_eoc + 45), "drop": True, "syms": [{"k": "EDM"}]},
                         {"tc": _tc(first_eoc + 200 - words), "drop": True, "syms": body2}]
                if tail == "erased":
                    lines.append({"tc": _tc(first_eoc + 260), "drop": True, "syms": [{"k": "EDM"}]})
                ins.append({"id": "o%d" % n, "lines": lines, "doubled": dbl, "offset": off})
                n += 1
        for short in (1, 2):
            for drop in (False, True):
                for order in ("flash-first", "flash-second"):
                    a = [{"k": "ENM"}, {"k": "RCL"}] + _load(rng, 14, 0) + [{"k": "EOC"}]
                    b = [{"k": "ENM"}, {"k": "RCL"}] + _load(rng, 2, 0) + [{"k": "EOC"}]
                    if order == "flash-first":
                        lines = [{"tc": _tc(900 - words), "drop": drop, "syms": a},
                                 {"tc": _tc(900 + short), "drop": drop, "syms": [{"k": "EDM"}]},
                                 {"tc": _tc(1100 - words), "drop": drop, "syms": b}]
                    else:
                        lines = [{"tc": _tc(900 - words), "drop": drop, "syms": a},
                                 {"tc": _tc(1000), "drop": drop, "syms": [{"k": "EDM"}]},
                                 {"tc": _tc(1100 - words), "drop": drop, "syms": b},
                                 {"tc": _tc(1100 + short), "drop": drop, "syms": [{"k": "EDM"}]},
                                 {"tc": _tc(1300 - words), "drop": drop, "syms": a}]
                    ins.append({"id": "o%d" % n, "lines": lines, "doubled": dbl, "offset": 0})
                    n += 1
    # how a stream ends and how the screen is cleared: a load that never gets its End-Of-Caption
    # (nothing more appears; a displayed caption keeps its end / the four-second default), and an
    # End-Of-Caption with nothing loaded (the displayed caption ends there), as the very next words
    # after a line that ends with End-Of-Caption, with and without a following load
    for dbl in (False, True):
        for drop in (False, True):
            for first in ("erased", "open"):
                for tail in ("load", "load-rcl-only", "flip", "flip-then-load", "rcl-flip-enm", "flip-flip"):
                    a = [{"k": "ENM"}, {"k": "RCL"}] + _load(rng, 14, 1) + [{"k": "EOC"}]
                    b = [{"k": "ENM"}, {"k": "RCL"}] + _load(rng, 2, 1)
                    lines = [{"tc": _tc(900), "drop": drop, "syms": a}]
                    if first == "erased":
                        lines.append({"tc": _tc(960), "drop": drop, "syms": [{"k": "EDM"}]})
                    if tail == "load":
                        lines.append({"tc": _tc(1000), "drop": drop, "syms": b})
                    elif tail == "load-rcl-only":
                        lines.append({"tc": _tc(1000), "drop": drop, "syms": [{"k": "RCL"}] + _load(rng, 2, 0)})
                    elif tail == "flip":
                        lines.append({"tc": _tc(1000), "drop": drop, "syms": [{"k": "EOC"}]})
                    elif tail == "flip-then-load":
                        lines.append({"tc": _tc(1000), "drop": drop, "syms": [{"k": "EOC"}]})
                        lines.append({"tc": _tc(1100), "drop": drop, "syms": b + [{"k": "EOC"}]})
                        lines.append({"tc": _tc(1200), "drop": drop, "syms": [{"k": "EOC"}]})
                    elif tail == "rcl-flip-enm":
                        lines.append({"tc": _tc(1000), "drop": drop, "syms": [{"k": "RCL"}, {"k": "EOC"}, {"k": "ENM"}]})
                        lines.append({"tc": _tc(1100), "drop": drop, "syms": b + [{"k": "EOC"}]})
                    else:
                        lines.append({"tc": _tc(1000), "drop": drop, "syms": [{"k": "EOC"}]})
                        # (the swapped-out caption is erased first: without that the second
                        # End-Of-Caption would bring it back, which is outside "every load erases first")
                        lines.append({"tc": _tc(1060), "drop": drop, "syms": [{"k": "ENM"}, {"k": "EOC"}]})
                        lines.append({"tc": _tc(1100), "drop": drop, "syms": b + [{"k": "EOC"}]})
                    ins.append({"id": "t%d" % n, "lines": lines, "doubled": dbl, "offset": 0})
                    n += 1
    for k in range(400 if ctx.quick else 60000):
        lines = sccgen.popon_program(rng, drop=None)
        # move the program to a random hour
        base = rng.choice([0, 0, rng.randrange(0, 30 * 3600 * 23)])
        for ln in lines:
            fr = ((ln["tc"][0] * 60 + ln["tc"][1]) * 60 + ln["tc"][2]) * 30 + ln["tc"][3] + base
            ln["tc"] = _tc(fr)
        first = ((lines[0]["tc"][0] * 60 + lines[0]["tc"][1]) * 60 + lines[0]["tc"][2])
        ins.append({"id": "r%d" % k, "lines": lines, "doubled": rng.random() < 0.5,
                    "offset": rng.choice([0, 0, 1, rng.randrange(0, first + 1),
                                          rng.randrange(0, first * 1000 + 1) / 1000 if first else 0])})
    return ins


def build_lines(inp):
    if "lines" in inp:
        return inp["lines"]
    rng = random.Random(hash(inp["id"]) & 0xffff)
    ncaps, erase, gap = inp["spec"]
    dbl = 2 if inp["doubled"] else 1
    lines = []
    f = 900                       # 30 s: room for offsets
    rows = [2, 8, 14]
    prev_erase = None
    for c in range(ncaps):
        syms = [{"k": "ENM"}, {"k": "RCL"}] + _load(rng, rows[c], inp["pad"])
        if erase == "inline" and c > 0:
            syms.append({"k": "EDM"})
        nctl = sum(1 for s in syms if s["k"] != "CH")
        words_before_eoc = nctl * dbl + (len(syms) - nctl)
        if erase == "inline" and c > 0:
            # the inline erase precedes the End-Of-Caption by its own words: gap = dbl frames
            pass
        if prev_erase is not None:
            start = prev_erase + gap - words_before_eoc
        else:
            start = f
        lines.append({"tc": _tc(max(start, 0)), "drop": inp["drop"], "syms": syms + [{"k": "EOC"}]})
        eoc = start + words_before_eoc
        if erase == "separate":
            prev_erase = eoc + 45
            lines.append({"tc": _tc(prev_erase), "drop": inp["drop"], "syms": [{"k": "EDM"}]})
        elif erase == "flash":
            prev_erase = eoc + gap
            lines.append({"tc": _tc(prev_erase), "drop": inp["drop"], "syms": [{"k": "EDM"}]})
            prev_erase += 60
            gap_next = 0
        else:
            prev_erase = None
            f = eoc + 40 + gap
    return lines


def execute(inp):
    lines = build_lines(inp)
    text, abs_lines = sccgen.render_program(lines, inp["doubled"])
    # offsets are given in seconds to the reader (int when whole, float otherwise) and in
    # milliseconds to the specification
    off = inp["offset"]
    kw = {"offset": off} if off else {}
    drop = lines[0]["drop"]
    return {"k": "timing", "prog": abs_lines, "drop": drop, "offset": int(round(off * 1000)), "obs": read_scc(text, **kw)}


def signature(inp, rec, clause):
    return {"clause": clause.split(" ")[0], "drop": rec["drop"], "offset_nonzero": bool(inp["offset"])}


def nontrivial(inp, rec):
    return inp["id"]


def corrupt(inp, rec):
    import copy
    from .num import from_limbs, limbs
    if not rec["obs"]["ok"] or not rec["obs"]["caps"]:
        return []
    out = []
    c = copy.deepcopy(rec)
    c["obs"]["caps"][0]["start"] = limbs(from_limbs(c["obs"]["caps"][0]["start"]) + 33366000)
    out.append(c)
    c = copy.deepcopy(rec)
    c["obs"]["caps"][-1]["end"] = limbs(from_limbs(c["obs"]["caps"][-1]["end"]) + 33366000)
    out.append(c)
    return out
