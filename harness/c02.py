"""C02  Writing preserves every cue's start and end instant."""
import random
from fractions import Fraction

from . import build, scan, tlc
from .num import from_limbs, limbs
from .registry import WRITERS

PID = "C02"
TRACE = "Trace_TimeCodes"
RULE = ("(G) the carry grid of MC_Write (every boundary of ms / s / min / h / 24 h, +-1 us, integer and thirds of a "
        "microsecond) written by the seven writers as consecutive cues; all cue lists of MC_SamiSync's shape for SAMI; "
        "(T) random sets: 1-12 captions, instants uniform in [0, 24 h) with emphasis on carries, SCC-style fractional "
        "microseconds, runs of identical timespans (merge), multi-layout captions (WebVTT split), several languages for "
        "DFXP. non-trivial = an instant >= 1 h, a fractional instant, a carry boundary, a run of identical spans, a "
        "multi-layout caption or a SAMI blank-sync decision; distinct by input")
ASSUMPTIONS = ["fractional input times are the SCC reader's kind (multiples of 1001/30 ms or 1/30 s), correctly rounded to a float",
               "times of 24 h and more are outside the domain (pinned by tests/test_base.py::test_format_end)"]

WR = ["SRT", "WebVTT", "DFXP", "DFXP-single", "DFXP-legacy", "SAMI", "MicroDVD"]
MODE = {"SRT": "merge", "DFXP-single": "merge", "DFXP-legacy": "merge", "WebVTT": "split",
        "DFXP": "exact", "SAMI": "exact", "MicroDVD": "exact"}
FMT = {"SRT": "SRT", "WebVTT": "WebVTT", "DFXP": "DFXP", "DFXP-single": "DFXP", "DFXP-legacy": "DFXP",
       "SAMI": "SAMI", "MicroDVD": "MicroDVD"}


def model_runs(ctx):
    r = tlc.run("MC_Write")
    ctx.add_tlc(r, "formatter design model (divmod chain) meets HmsOk / FrameOk on the carry grid; requirement is tight")
    ctx._grid = r.cases()
    r2 = tlc.run("MC_SamiSync")
    ctx.add_tlc(r2, "SAMI sync state machine (last_time) meets the blank-sync rule on all lists of <= 3 cues over a grid with 0")
    ctx.extra["exhaustive"] = True
    ctx.extra["bound"] = "MC_Write carry grid (36 instants) and MC_SamiSync (<= 3 cues on {0,1,2,3} ms)"


def model_controls(ctx):
    r = tlc.run("MC_SamiSync", cfg="MC_SamiSync_neg", allow_violation=True, workers=4)
    if r.violated != "BlankSyncRule":
        raise tlc.MachineryError("MC_SamiSync_neg: falsy last_time not refuted")
    ctx.add_tlc(r, "negative control: falsy last_time refuted (cue ending at millisecond 0)")
    return 1


DAY = 86_400_000_000


def _t(fr):
    return "%d/%d" % (fr.numerator, fr.denominator)


def inputs(ctx):
    rng = random.Random(ctx.seed * 32452843 + 2)
    ins = []
    pts = sorted({Fraction(from_limbs(c["n"]), c["d"]) for c in ctx._grid})
    caps = [(_t(a), _t(b)) for a, b in zip(pts, pts[1:])]
    n = 0
    for w in WR:
        ins.append({"id": "g%d" % n, "writer": w, "langs": [caps]})
        n += 1
        for a in pts:
            ins.append({"id": "g%d" % n, "writer": w, "langs": [[(_t(a), _t(a))]]})
            n += 1
    # SAMI lists on the millisecond grid {0,1,2,3}, as MC_SamiSync
    grid = [0, 1000, 2000, 3000]
    spans = [(a, b) for a in grid for b in grid if a <= b]
    for a in spans:
        for b in spans:
            if a[1] <= b[0]:
                ins.append({"id": "g%d" % n, "writer": "SAMI", "langs": [[(str(a[0]), str(a[1])), (str(b[0]), str(b[1]))]]})
                n += 1
                for c in spans:
                    if b[1] <= c[0] and (n % 3 == 0 or not ctx.quick):
                        ins.append({"id": "g%d" % n, "writer": "SAMI",
                                    "langs": [[(str(a[0]), str(a[1])), (str(b[0]), str(b[1])), (str(c[0]), str(c[1]))]]})
                    n += 1
    carries = [0, 1, 999, 1000, 999_999, 10**6, 59_999_999, 6 * 10**7, 3_599_999_999, 36 * 10**8, DAY - 1]
    N = 700 if ctx.quick else 40000
    for k in range(N):
        w = rng.choice(WR)
        nl = rng.choice([1, 1, 2, 3]) if w in ("DFXP", "DFXP-single", "DFXP-legacy") else 1
        langs = []
        layouts = []
        for _ in range(nl):
            # integer microseconds, or the SCC reader's grids: whole frames of 1001/30 ms
            # (non-drop) or 1/30 s (drop-frame) - fractional instants never leave those grids
            unit = rng.choice([Fraction(1), Fraction(1), Fraction(100100, 3), Fraction(100000, 3)])
            span = int(DAY / unit)
            t = rng.choice([0, rng.randrange(max(1, span // 8000)), rng.randrange(span // 2)])
            lst = []
            lay = []
            for _ in range(rng.randrange(1, 13)):
                if rng.random() < 0.25:
                    c = rng.choice(carries) + rng.choice([-1, 0, 0, 1])
                    hop = int(t * unit) // (36 * 10**8) * 36 * 10**8
                    t = max(t, min(int((c + hop) / unit), span - 2))
                if unit == 1:
                    t += rng.choice([0, 1, 999, 1000, rng.randrange(10**6), rng.randrange(10**8)])
                    d = rng.choice([0, 1, 1000, rng.randrange(5 * 10**6)])
                else:
                    t += rng.choice([0, 1, 2, 29, 30, rng.randrange(1, 3000)])
                    d = rng.choice([0, 1, 2, 30, rng.randrange(1, 150)])
                if (t + d) * unit >= DAY:
                    break
                rep = rng.choice([1, 1, 1, 1, 2, 3])
                for _ in range(rep):
                    lst.append((_t(t * unit), _t((t + d) * unit)))
                    lay.append(rng.choice([1, 1, 1, 2, 3]) if w == "WebVTT" else 1)
                t = t + d + (rng.choice([0, 0, 1, rng.randrange(10**6)]) if unit == 1 else rng.choice([0, 0, 1, rng.randrange(3000)]))
            if not lst:
                lst = [("0", "1000")]
                lay = [1]
            langs.append(lst)
            layouts.append(lay)
        ins.append({"id": "r%d" % k, "writer": w, "langs": langs, "parts": layouts})
        if k % 4 == 0 and all(Fraction(s).denominator == 1 and Fraction(e).denominator == 1 for l in langs for s, e in l):
            ins.append({"id": "o%d" % k, "writer": w, "langs": langs, "parts": layouts, "pre": "observed-then-retimed"})
    # equal timespans that are NOT consecutive (another cue in between), overlapping and unsorted
    # lists: only a run of consecutive equal spans may be merged.  The SAMI writer places cues by
    # time and is left out of this family.
    pool = [(1000000, 2000000), (1000000, 3000000), (2000000, 3000000), (5000000, 5000000), (0, 0), (12000000, 14000000),
            (10000000, 12000000)]
    n = 0
    seqs = [[0, 1, 0], [0, 0, 1, 0], [6, 5, 6], [0, 2, 0, 2], [3, 0, 3], [4, 0, 4, 4], [1, 0, 0, 1], [0, 1, 2, 1, 0]]
    for _ in range(40 if ctx.quick else 2000):
        seqs.append([rng.randrange(len(pool)) for _ in range(rng.randrange(3, 9))])
    for seq in seqs:
        for w in WR:
            if w == "SAMI":
                continue
            ins.append({"id": "u%d" % n, "writer": w, "langs": [[(_t(Fraction(pool[i][0])), _t(Fraction(pool[i][1]))) for i in seq]]})
            n += 1
            # the same list with one text for every caption (two speakers answering "Yes.", a refrain):
            # captions that are equal in times AND text are still one cue each
            if n % 2 == 0 or not ctx.quick:
                ins.append({"id": "v%d" % n, "writer": w, "same_text": True,
                            "langs": [[(_t(Fraction(pool[i][0])), _t(Fraction(pool[i][1]))) for i in seq]]})
    return ins


def _set(inp):
    langs = []
    for li, lst in enumerate(inp["langs"]):
        caps = []
        for ci, (s, e) in enumerate(lst):
            k = inp.get("parts", [[1] * len(lst)] * len(inp["langs"]))[li][ci]
            nodes = []
            for j in range(k):
                if j:
                    nodes.append(["b"])
                lay = {"o": [["%d" % (10 + 10 * j), "%"], ["%d" % (10 + 5 * j), "%"]]} if k > 1 else None
                nodes.append(["t", "Yes." if inp.get("same_text") else "L%d c%d p%d" % (li, ci, j)] + ([lay] if lay else []))
            caps.append({"s": s if "/" in s else int(s), "e": e if "/" in e else int(e), "nodes": nodes})
        langs.append({"lang": ["en-US", "fr-FR", "de-DE"][li], "caps": caps})
    return build.caption_set({"langs": langs})


def _rat(s):
    f = Fraction(s)
    return {"n": limbs(f.numerator), "d": f.denominator}


def _hms(fields, opt_hour=False):
    if fields is None:
        return {"plain": False, "f": []}
    return {"plain": True, "f": [[int(c) for c in (x or "")] for x in fields]}


def _num(s):
    ok = s is not None and s != "" and all(c in "0123456789" for c in s)
    return {"plain": ok, "f": [[int(c) for c in s]] if ok else []}


def execute(inp):
    w = inp["writer"]
    fmt = FMT[w]
    cs = _set(inp)
    if inp.get("pre") == "observed-then-retimed":
        # the set was looked at (repr, formatted stamps, text) while its times were different, then
        # retimed in place to the instants of this input: what is written denotes the current times
        delta = 250_000
        cs.adjust_caption_timing(offset=delta)
        for lg in cs.get_languages():
            for c in cs.get_captions(lg):
                repr(c), c.format_start(), c.format_end(), c.format_start(","), c.format_end(","), c.get_text()
        cs.adjust_caption_timing(offset=-delta)
    rec = {"k": "write", "fmt": fmt, "mode": MODE[w], "writer": w, "ok": True}
    li = inp.get("lang_index", 0)
    # multi-language sets: one record judges every language (concatenated check per language)
    try:
        out = WRITERS[w]().write(cs)
    except Exception as e:
        rec.update({"ok": False, "err": type(e).__name__ + ": " + str(e)[:200], "caps": [], "out": [], "parts": [],
                    "syncs": []})
        return rec
    # writers that carry one language: check language 0; DFXP: every language, concatenated
    # in order (cue structure is per div)
    caps_all, out_all, parts_all = [], [], []
    langs = cs.get_languages()
    if fmt == "DFXP":
        root, err = scan.parse_xml_strict(out)
        if root is None:
            rec.update({"ok": False, "err": err, "caps": [], "out": [], "parts": []})
            return rec
        doc = scan.scan_dfxp(root)
        per = {d["lang"]: d for d in doc["divs"]}
        for k, lg in enumerate(langs):
            caps_all += [{"s": _rat(s), "e": _rat(e)} for s, e in inp["langs"][k]]
            parts_all += [1] * len(inp["langs"][k])
            d = per.get(lg, {"ps": []})
            out_all += [{"s": _hms(scan.clock_fields(p["begin"])), "e": _hms(scan.clock_fields(p["end"]))} for p in d["ps"]]
            if k + 1 < len(langs):
                # language boundary: a sentinel cue that can only match itself
                sent = {"n": limbs(DAY + k), "d": 1}
                caps_all.append({"s": sent, "e": sent})
                parts_all.append(1)
                h = [[int(c) for c in x] for x in ("24", "00", "00", "%03d" % 0)]
                ms = DAY // 1000 + 0
                out_all.append({"s": {"plain": True, "f": _sentinel(DAY + k)}, "e": {"plain": True, "f": _sentinel(DAY + k)}})
        rec.update({"caps": caps_all, "out": out_all, "parts": parts_all})
        return rec
    caps = [{"s": _rat(s), "e": _rat(e)} for s, e in inp["langs"][0]]
    parts = inp.get("parts", [[1] * len(inp["langs"][0])])[0]
    rec["caps"] = caps
    rec["parts"] = parts
    if fmt == "SRT":
        try:
            cues = scan.scan_srt(out)
            rec["out"] = []
            for c in cues:
                f = scan.srt_fields(c["timing"])
                rec["out"].append({"s": _hms(f[0] if f else None), "e": _hms(f[1] if f else None)})
        except ValueError as e:
            rec.update({"ok": False, "err": str(e), "out": []})
    elif fmt == "WebVTT":
        ok, cues = scan.scan_webvtt(out)
        rec["out"] = []
        for c in cues:
            f = scan.vtt_fields(c["timing"]) if c["timing"] else None
            rec["out"].append({"s": _hms(f[0] if f else None), "e": _hms(f[1] if f else None)})
        if not ok:
            rec.update({"ok": False, "err": "no WEBVTT header"})
    elif fmt == "MicroDVD":
        try:
            cues = scan.scan_microdvd(out)
            rec["out"] = [{"s": _num(c["start"]), "e": _num(c["end"])} for c in cues]
        except ValueError as e:
            rec.update({"ok": False, "err": str(e), "out": []})
    else:  # SAMI
        doc = scan.scan_sami(out)
        syncs = []
        for s in doc["syncs"]:
            for p in s["ps"]:
                if p["class"] == langs[0]:
                    txt = "".join(p["lines"]).replace("\xa0", " ").strip()
                    st = s["start"]
                    ok = st is not None and st != "" and all(c in "0123456789" for c in st)
                    syncs.append({"ms": {"plain": ok, "ds": [int(c) for c in st] if ok else [], "raw": st},
                                  "blank": txt == ""})
        rec["syncs"] = syncs
        rec["out"] = []
    return rec


def _sentinel(us):
    ms = us // 1000
    h, rem = divmod(ms, 3600000)
    m, rem = divmod(rem, 60000)
    s, f = divmod(rem, 1000)
    return [[int(c) for c in x] for x in ("%02d" % h, "%02d" % m, "%02d" % s, "%03d" % f)]


def signature(inp, rec, clause):
    sig = {"clause": clause.split(" ")[0], "writer": inp["writer"]}
    frac = any("/" in s or "/" in e for lst in inp["langs"] for s, e in lst)
    sig["fractional"] = frac
    if inp["writer"] == "SAMI" and sig["clause"] == "BlankSyncRule":
        lst = inp["langs"][0]
        sig["end_at_ms0"] = any(Fraction(e) < 1000 for _, e in lst[:-1])
    return sig


def nontrivial(inp, rec):
    for lst in inp["langs"]:
        for k, (s, e) in enumerate(lst):
            if "/" in s or "/" in e or Fraction(s) >= 36 * 10**8:
                return inp["id"]
            if k and lst[k - 1] == (s, e):
                return inp["id"]
    if inp["writer"] == "SAMI" or inp["id"].startswith("g"):
        return inp["id"]
    if any(p > 1 for pl in inp.get("parts", []) for p in pl):
        return inp["id"]
    return None


def corrupt(inp, rec):
    import copy
    out = []
    if not rec["ok"]:
        return out
    if rec["fmt"] == "SAMI":
        if rec["syncs"]:
            c = copy.deepcopy(rec)
            d = c["syncs"][0]["ms"]["ds"]
            d[-1] = (d[-1] + 1) % 10
            out.append(c)
            c = copy.deepcopy(rec)
            c["syncs"] = c["syncs"][1:]
            out.append(c)
        return out
    if rec["out"]:
        c = copy.deepcopy(rec)
        f = c["out"][0]["s"]["f"]
        f[-1][-1] = (f[-1][-1] + 1) % 10
        out.append(c)
        c = copy.deepcopy(rec)
        c["out"] = c["out"][:-1]
        out.append(c)
    return out
