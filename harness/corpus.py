"""Documents and API-built sets used by the history checks (C09, C10) and others."""
import os

from . import render

REPO = os.environ.get("VERIF_REPO", "/repo")


def _ex(name):
    with open(os.path.join(REPO, "examples", name), encoding="utf-8") as f:
        return f.read()


SCC2 = """Scenarist_SCC V1.0

00:00:01:00\t94ae 94ae 9420 9420 9470 9470 c8e5 ecec ef80 942f 942f

00:00:03:00\t942c 942c

00:00:05:00\t94ae 94ae 9420 9420 1370 1370 d7ef f2ec 6480 942f 942f

00:00:07:00\t942c 942c
"""

SCC3 = """Scenarist_SCC V1.0

00:00:10:00\t9420 9420 94d0 94d0 91ae 91ae cf6e e580 9470 9470 54f7 ef80 942f 942f

00:00:12:15\t942c 942c
"""

DFXP2 = """<?xml version="1.0" encoding="utf-8"?>
<tt xml:lang="en" xmlns="http://www.w3.org/ns/ttml" xmlns:tts="http://www.w3.org/ns/ttml#styling">
 <head>
  <styling>
   <style xml:id="s1" tts:color="red" tts:fontFamily="Arial"/>
   <style xml:id="s2" tts:fontStyle="italic"/>
  </styling>
  <layout>
   <region xml:id="top" tts:origin="10% 10%" tts:extent="80% 20%" tts:displayAlign="before" tts:textAlign="center"/>
   <region xml:id="bot" tts:origin="10% 70%" tts:extent="80% 20%" tts:padding="1% 2% 3% 4%"/>
  </layout>
 </head>
 <body>
  <div xml:lang="en-US" region="bot">
   <p begin="00:00:01.000" end="00:00:02.500" style="s1">Hello <span tts:fontStyle="italic">there</span><br/>world</p>
   <p begin="00:00:03.000" end="00:00:04.000" region="top">Second &amp; last</p>
  </div>
  <div xml:lang="fr-FR">
   <p begin="00:00:01.000" end="00:00:02.500" style="s2">Bonjour</p>
   <p begin="00:00:05.000" end="00:00:06.000">Au revoir</p>
  </div>
 </body>
</tt>
"""

DFXP_PX = """<?xml version="1.0" encoding="utf-8"?>
<tt xml:lang="en" xmlns="http://www.w3.org/ns/ttml" xmlns:tts="http://www.w3.org/ns/ttml#styling">
 <head>
  <layout>
   <region xml:id="r" tts:origin="64px 36px" tts:extent="320px 100px"/>
  </layout>
 </head>
 <body>
  <div xml:lang="en-US">
   <p begin="00:00:01.000" end="00:00:02.000" region="r">Pixels</p>
  </div>
 </body>
</tt>
"""

SAMI4 = render.sami_doc(
    [("ENCC", "en-US"), ("FRCC", "fr-FR"), ("DECC", "de-DE"), ("ESCC", "es-ES")],
    [("1000", [("ENCC", "one"), ("FRCC", "un"), ("DECC", "eins"), ("ESCC", "uno")]),
     ("2000", [("ENCC", "&nbsp;"), ("FRCC", "&nbsp;"), ("DECC", "&nbsp;"), ("ESCC", "&nbsp;")]),
     ("3000", [("ESCC", "dos"), ("DECC", "zwei"), ("FRCC", "deux"), ("ENCC", "two <i>it</i>")]),
     ("5000", [("ENCC", "three"), ("DECC", "drei")])])

SRT2 = render.srt_doc([("00:00:01,000", "00:00:02,000", ["first", "line two"]),
                       ("00:00:03,500", "00:00:04,250", ["second & <b>"]),
                       ("01:00:00,000", "01:00:01,000", ["late"])])
VTT2 = render.webvtt_doc([("00:01.000", "00:02.000", ["first"], "position:10% line:20% align:left"),
                          ("00:03.000", "00:04.000", ["<v Bob>second", "line"], ""),
                          ("01:00:00.000", "01:00:01.000", ["late &amp; last"], "size:50%")])
MDVD2 = render.microdvd_doc([("10", "50", ["one", "two"]), ("60", "100", ["three"])], "23.976")


def _head(text, sep, n):
    """the first n blocks of a line-oriented example file (keeps histories fast)"""
    parts = text.split(sep)
    return sep.join(parts[:n]) + ("" if sep == "\n" else "\n")


DFXP1 = render.dfxp_doc([("en", [
    ('begin="00:00:09.209" end="00:00:12.312"', "\n        ( clock ticking )\n      "),
    ('begin="14.848s" end="17.350s"', "MAN:<br/>When we think<br/>of <span tts:fontStyle=\"italic\">E equals</span> m c-squared,"),
    ('begin="00:00:17:15" dur="1.5s"', "we have this vision of Einstein")])])

SAMI1 = render.sami_doc([("ENCC", "en-US"), ("FRCC", "fr-FR")], [
    ("9209", [("ENCC", "( clock ticking )"), ("FRCC", "( tic-tac )")]),
    ("12312", [("ENCC", "&nbsp;")]),
    ("14848", [("ENCC", "MAN:<br/>When we <b>think</b>"), ("FRCC", "HOMME:<br/>Quand on pense")]),
    ("17350", [("ENCC", "of <span style=\"font-style:italic;\">E</span> equals m c-squared")])])


# documents on which the reader raises, some of them midway through (state left behind on a reused
# reader object must not reach the next read), and style tables with text-align (a writer pops it)
SCC_LONG = """Scenarist_SCC V1.0

00:00:01:00\t94ae 94ae 9420 9420 9470 9470 c8e5 ecec ef20 c8e5 ecec ef20 c8e5 ecec ef20 c8e5 ecec ef20 c8e5 ecec ef20 c8e5 ecec ef20 942f 942f

00:00:04:00\t942c 942c
"""
SCC_LEFT = """Scenarist_SCC V1.0

00:00:01:00\t94ae 94ae 9420 9420 9470 9470 cce5 e674 20ef f6e5 f280
"""
SCC_BADTC = """Scenarist_SCC V1.0

00:00:01:00\t94ae 94ae 9420 9420 1370 1370 c7ef ef64 942f 942f

00:00:02:00\t94ae 94ae 9420 9420 9470 9470 d0e5 6e64 e96e e780

0:0:3\t942f 942f
"""
SCC_ROLL = """Scenarist_SCC V1.0

00:00:01:00\t9425 9425 94ad 94ad 9470 9470 d2ef ecec 20ef 6e65

00:00:03:00\t94ad 94ad 9470 9470 d2ef ecec 20f4 f7ef

00:00:05:00\t94ad 94ad 9470 9470 d2ef ecec 20f4 68f2 e5e5

00:00:07:00\t94ad 94ad
"""
DFXP_FR25 = """<?xml version="1.0" encoding="utf-8"?>
<tt xml:lang="en" xmlns="http://www.w3.org/ns/ttml" xmlns:ttp="http://www.w3.org/ns/ttml#parameter" ttp:frameRate="25">
 <body>
  <div xml:lang="en-US">
   <p begin="00:00:01:10" end="00:00:02:20">twenty-five</p>
   <p begin="75f" end="100f">frames</p>
  </div>
 </body>
</tt>
"""
SCC_MIDPUNCT = """Scenarist_SCC V1.0

00:00:01:00\t94ae 9420 9470 c8e5 ecec ef80 9120 ae80 942f

00:00:03:00\t942c

00:00:05:00\t94ae 9420 9470 c8e5 ecec ef80 91ae a180 942f

00:00:07:00\t942c

00:00:09:00\t94ae 9420 9470 c8e5 ecec ef80 9120 2c80 942f

00:00:11:00\t942c
"""
DFXP_NONE = """<?xml version="1.0" encoding="utf-8"?>
<tt xml:lang="en" xmlns="http://www.w3.org/ns/ttml"><body><div xml:lang="en-US"></div></body></tt>
"""
DFXP_TA = """<?xml version="1.0" encoding="utf-8"?>
<tt xml:lang="en" xmlns="http://www.w3.org/ns/ttml" xmlns:tts="http://www.w3.org/ns/ttml#styling">
 <head>
  <styling>
   <style xml:id="c" tts:textAlign="center" tts:color="yellow"/>
   <style xml:id="r" tts:textAlign="right"/>
  </styling>
 </head>
 <body>
  <div xml:lang="en-US">
   <p begin="00:00:01.000" end="00:00:02.000" style="c">Centred</p>
   <p begin="00:00:03.000" end="00:00:04.000" style="r" tts:textAlign="left">Right then left</p>
  </div>
 </body>
</tt>
"""
SAMI_TA = """<SAMI><HEAD><TITLE>ta</TITLE>
<STYLE TYPE="text/css">
<!--
P { margin-left: 1pt; text-align: center; font-size: 10pt; color: white; }
.ENCC {Name: English; lang: en-US; SAMI_Type: CC;}
.hl { text-align: right; color: red; }
-->
</STYLE></HEAD><BODY>
<SYNC start="1000"><P class="ENCC">centred</P></SYNC>
<SYNC start="2000"><P class="ENCC">&nbsp;</P></SYNC>
<SYNC start="3000"><P class="ENCC"><span class="hl">right</span> text</P></SYNC>
</BODY></SAMI>
"""
DFXP_SLOPPY = """<?xml version="1.0" encoding="utf-8"?>
<tt xml:lang="en" xmlns="http://www.w3.org/ns/ttml" xmlns:tts="http://www.w3.org/ns/ttml#styling">
 <head>
  <styling>
   <style xml:id="s1" tts:color="red"/>
   <style xml:id="s2" tts:color="blue" tts:fontStyle="italic"/>
   <style xml:id="s3" tts:fontFamily="Arial"/>
  </styling>
  <layout>
   <region xml:id="ra" tts:origin="10% 10%" tts:extent="30% 10%"/>
   <region xml:id="rb" tts:origin="50% 10%" tts:extent="30% 10%"/>
   <region xml:id="rc" tts:origin="10% 50%" tts:extent="30% 10%"/>
   <region xml:id="rd" tts:origin="50% 50%" tts:extent="30% 10%"/>
  </layout>
 </head>
 <body>
  <div xml:lang="en-US">
   <p begin="00:00:01.000" end="00:00:02.000" style="s1  s2">doubled blank</p>
   <p begin="00:00:03.000" end="00:00:04.000" style="s3 s1 s3 s2">repeated id</p>
   <p begin="00:00:05.000" end="00:00:06.000" style=" s2 s1 ">padded</p>
   <p begin="00:00:07.000" end="00:00:08.000"><span region="ra">one</span> <span region="rb">two</span> <span region="rc">three</span> <span region="rd">four</span></p>
  </div>
 </body>
</tt>
"""
DFXP_PLANG = """<?xml version="1.0" encoding="utf-8"?>
<tt xml:lang="en" xmlns="http://www.w3.org/ns/ttml" xmlns:tts="http://www.w3.org/ns/ttml#styling">
 <body>
  <div xml:lang="en-US">
   <p begin="00:00:01.000" end="00:00:02.000" xml:lang="en">one</p>
   <p begin="00:00:03.000" end="00:00:04.000" xml:lang="fr">deux</p>
   <p begin="00:00:05.000" end="00:00:06.000" xml:lang="de">drei</p>
   <p begin="00:00:07.000" end="00:00:08.000" xml:lang="es">cuatro</p>
   <p begin="00:00:09.000" end="00:00:10.000" xml:lang="it">cinque</p>
  </div>
 </body>
</tt>
"""
VTT_BAD = "WEBVTT\n\n00:05.000 --> 00:02.000\nend before start\n\n00:06.000 --> 00:07.000\nfine\n"
SRT_NONE = "1\n"


def docs():
    return {
        "scc_roll": ("SCC", SCC_ROLL), "scc_midpunct": ("SCC", SCC_MIDPUNCT), "dfxp_fr25": ("DFXP", DFXP_FR25), "scc_long": ("SCC", SCC_LONG), "scc_left": ("SCC", SCC_LEFT), "scc_badtc": ("SCC", SCC_BADTC),
        "dfxp_none": ("DFXP", DFXP_NONE), "dfxp_ta": ("DFXP", DFXP_TA), "sami_ta": ("SAMI", SAMI_TA),
        "vtt_bad": ("WebVTT", VTT_BAD), "srt_none": ("SRT", SRT_NONE), "dfxp_sloppy": ("DFXP", DFXP_SLOPPY), "dfxp_plang": ("DFXP", DFXP_PLANG),
        "srt1": ("SRT", _head(_ex("example.srt"), "\n\n", 8)), "srt2": ("SRT", SRT2),
        "vtt1": ("WebVTT", _head(_ex("example.vtt"), "\n\n", 9)), "vtt2": ("WebVTT", VTT2),
        "dfxp1": ("DFXP", DFXP1), "dfxp2": ("DFXP", DFXP2), "dfxp_px": ("DFXP", DFXP_PX),
        # the same document with its language tag spelled in lower case (a tag is reported as written)
        "dfxp2_lc": ("DFXP", DFXP2.replace('xml:lang="en-US"', 'xml:lang="en-us"')),
        "sami1": ("SAMI", SAMI1), "sami4": ("SAMI", SAMI4),
        "mdvd1": ("MicroDVD", _head(_ex("example.sub"), "\n", 10)), "mdvd2": ("MicroDVD", MDVD2),
        "scc1": ("SCC", _head(_ex("example.scc"), "\n", 22)), "scc2": ("SCC", SCC2), "scc3": ("SCC", SCC3),
    }


UNREADABLE = ("scc_long", "scc_left", "scc_badtc", "dfxp_none", "vtt_bad", "srt_none")


def readable_docs():
    """the documents every reader accepts (the others exist for the histories of C09 / C10)"""
    return {k: v for k, v in docs().items() if k not in UNREADABLE}


PCT = {"o": [["10", "%"], ["20", "%"]], "e": [["50", "%"], ["30", "%"]], "a": ["center", "top"]}
PX = {"o": [["64", "px"], ["36", "px"]]}

BUILDS = {
    "b_plain": {"langs": [{"lang": "en-US", "caps": [
        {"s": 1000000, "e": 2000000, "nodes": [["t", "plain one"], ["b"], ["t", "line two"]]},
        {"s": 3000000, "e": 4000000, "nodes": [["t", "plain & two"]]}]}]},
    "b_styled": {"langs": [{"lang": "en-US", "caps": [
        {"s": 1000000, "e": 2000000, "nodes": [["t", "a "], ["s", True, {"italics": True}], ["t", "italic"],
                                                ["s", False, {"italics": True}], ["t", " z"]]},
        {"s": 3000000, "e": 4000000, "style": {"class": "c1"}, "layout": PCT, "nodes": [["t", "styled"]]}]}],
        "styles": {"c1": {"color": "red", "italics": True}}},
    "b_unclosed": {"langs": [{"lang": "en-US", "caps": [
        {"s": 1000000, "e": 2000000, "nodes": [["t", "before "], ["s", True, {"italics": True}], ["t", "never closed"]]}]}]},
    "b_textalign": {"langs": [{"lang": "en-US", "caps": [
        {"s": 1000000, "e": 2000000, "style": {"class": "c1", "text-align": "right"}, "nodes": [["t", "aligned"]]},
        {"s": 3000000, "e": 4000000, "nodes": [["s", True, {"class": "c2"}], ["t", "span"], ["s", False, {"class": "c2"}]]}]}],
        "styles": {"c1": {"text-align": "center", "color": "red"}, "c2": {"text-align": "left"}}},
    "b_empty": {"langs": []},
    # a span left open in one caption and a caption that makes writers with relativize raise, in one set
    "b_unclosed_px": {"langs": [{"lang": "en-US", "caps": [
        {"s": 1000000, "e": 2000000, "nodes": [["t", "before "], ["s", True, {"italics": True}], ["t", "never closed"]]},
        {"s": 3000000, "e": 4000000, "layout": {"o": [["64", "px"], ["36", "px"]]}, "nodes": [["t", "pixels"]]}]}]},
    # spans and captions with several of the properties DFXP spells as attributes
    "b_richspan": {"langs": [{"lang": "en-US", "caps": [
        {"s": 1000000, "e": 2000000, "style": {"color": "white", "font-family": "Arial", "font-size": "12", "text-align": "center"},
         "nodes": [["t", "a "], ["s", True, {"color": "red", "font-family": "Courier", "font-size": "10", "text-align": "right",
                                              "italics": True}], ["t", "rich"],
                   ["s", False, {"color": "red", "font-family": "Courier", "font-size": "10", "text-align": "right", "italics": True}]]}]}],
        "styles": {"k": {"color": "blue", "font-family": "Times", "font-size": "9", "text-align": "left", "display-align": "before"}}},
    "b_nodelayouts": {"langs": [{"lang": "en-US", "caps": [
        {"s": 1000000, "e": 2000000, "nodes": [["t", "one", {"o": [["10", "%"], ["10", "%"]]}], ["b"],
                                                ["t", "two", {"o": [["50", "%"], ["10", "%"]]}], ["b"],
                                                ["t", "three", {"o": [["10", "%"], ["50", "%"]]}], ["b"],
                                                ["t", "four", {"o": [["50", "%"], ["50", "%"]], "a": ["center", "top"]}], ["b"],
                                                ["t", "five", {"o": [["30", "%"], ["70", "%"]], "e": [["40", "%"], ["20", "%"]]}]]},
        {"s": 3000000, "e": 4000000, "nodes": [["s", True, {"italics": True}, {"o": [["20", "%"], ["20", "%"]]}],
                                                ["t", "six", {"o": [["20", "%"], ["20", "%"]]}],
                                                ["s", False, {"italics": True}, {"o": [["20", "%"], ["20", "%"]]}],
                                                ["t", " seven", {"o": [["60", "%"], ["20", "%"]]}]]}]}]},
    "b_px": {"langs": [{"lang": "en-US", "caps": [
        {"s": 1000000, "e": 2000000, "layout": PX, "nodes": [["t", "pixels"]]}]}]},
    "b_multi": {"langs": [
        {"lang": "en-US", "layout": PCT, "caps": [{"s": 1000000, "e": 2000000, "nodes": [["t", "hello", PCT]]},
                                                   {"s": 2000000, "e": 3000000, "nodes": [["t", "again"]]}]},
        {"lang": "fr-FR", "caps": [{"s": 1500000, "e": 2500000, "nodes": [["t", "bonjour"]]}]}]},
}
