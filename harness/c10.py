"""C10  Reading is a deterministic, isolated function of document and options."""
import sys

from . import c09, session, tlc

PID = "C10"
TRACE = "Trace_Session"
FORK_PER_INPUT = True
WRITE_BIAS = False
OWN = ("Read", "Edit", "Drop")
RULE = c09.RULE.replace("a history with a write after another write or edit",
                        "a history with a second read, or an edit while another set is live")
ASSUMPTIONS = ["set equality is equality of a canonical structural dump (languages in order, times as exact fractions, nodes, styles, layouts)",
               "Write clauses belong to C09 and are ignored here"]
model_runs = c09.model_runs
model_controls = c09.model_controls


def inputs(ctx):
    return c09._inputs(ctx, sys.modules[__name__])


execute = c09.execute


def signature(inp, rec, clause):
    return c09._sig(inp, rec, clause, OWN)


def nontrivial(inp, rec):
    reads = [e for e in rec["events"] if e["op"] == "read"]
    if len(reads) >= 2 or any(e["op"] == "edit" and len(e["dumps"]) > 1 for e in rec["events"]):
        return inp["id"]
    return None


def corrupt(inp, rec):
    import copy
    out = []
    for k, e in enumerate(rec["events"]):
        if e["op"] == "read" and not e["raised"]:
            c = copy.deepcopy(rec)
            c["events"][k]["dumps"][e["set"]] = "0" * 16
            out.append(c)
            break
    for k, e in enumerate(rec["events"]):
        if e["op"] == "edit" and len(e["dumps"]) > 1:
            c = copy.deepcopy(rec)
            other = [s for s in e["dumps"] if s != e["set"]][0]
            c["events"][k]["dumps"][other] = "1" * 16
            out.append(c)
            break
    return out
