"""C17  SCC output is structurally valid and re-reads to the same words."""
import random

from . import build, sccgen, tlc
from .num import limbs

PID = "C17"
TRACE = "Trace_SccWriter"
RULE = ("(G) a grid of caption sets: 1-3 captions x line lengths {1, 31, 32, 33, 64, 80} x word shapes (short words, a "
        "32-character word, a 40-character word, hyphenated words) x spacing {just feasible, +1 frame, sparse} x first "
        "start {just feasible, late}; (T) random texts over the whole basic character table, 1-4 lines of 1-80 characters, "
        "words up to 40 characters. The output is scanned by the harness's own SCC scanner (header, line syntax, "
        "bytes), folded into decoder symbols and decoded by the TLA+ reference decoder; rows, words, parity, line "
        "overlap and the End-Of-Caption frame are judged by TLC, as is SCCReader's re-reading. non-trivial = wrapping "
        "happens, a word exceeds 32 characters, a hyphen occurs or the spacing is within 4 frames of feasible; "
        "distinct by input")
ASSUMPTIONS = ["the minimal transmission time of a load is computed from the requirement (2 words per row preamble pair, one word per two characters, 8 control words), not from the code",
               "texts use the CEA-608 basic character table; at most 15 rows after wrapping"]

FRAME_US = 1001000 / 30.0


def model_runs(ctx):
    r = tlc.run("MC_SccWriter")
    ctx.add_tlc(r, "schedule design model (pre-roll, clear-screen suppression) meets the timing requirement for 1-3 captions x loads x spacings")
    ctx.extra["exhaustive"] = True
    ctx.extra["bound"] = "1-3 captions x loads {5,20,60} x slack {0..4,10,100} (model); replay grid of line lengths x word shapes x spacings"


def model_controls(ctx):
    r = tlc.run("MC_SccWriter", cfg="MC_SccWriter_neg", allow_violation=True, workers=2)
    if r.violated != "ScheduleMeetsRequirement":
        raise tlc.MachineryError("MC_SccWriter_neg not refuted")
    ctx.add_tlc(r, "negative control: without pre-roll of the first caption the schedule is refuted")
    return 1


def _wrap_rows(line):
    """number of rows a line needs (greedy 32-column wrapping, long words split)"""
    rows = 1
    col = 0
    for w in line.split(" "):
        n = len(w)
        while n > 32:
            if col:
                rows += 1
                col = 0
            rows += 1
            n -= 32
            col = 0
        if col and col + 1 + n > 32:
            rows += 1
            col = n
        else:
            col = col + (1 if col else 0) + n
    return rows


def need_frames(lines):
    """frames a load needs at one word per frame: per row a doubled preamble and one word per
    two characters, plus eight control words; an upper estimate (rows as wrapped greedily)"""
    n = 8
    for ln in lines:
        n += 2 * _wrap_rows(ln) + (len(ln) + 1) // 2 + _wrap_rows(ln)
    return n


ALPHA = "ABCDEFGHIJKLMNOPQRSTUVWXYZabcdefghijklmnopqrstuvwxyz0123456789"
PUNCT = "!\"#$%&'()+,-./:;<=>?@[]"


def _line(rng, n, shape):
    if shape == "long32":
        w = "".join(rng.choice(ALPHA) for _ in range(32))
        rest = n - 32
    elif shape == "long40":
        w = "".join(rng.choice(ALPHA) for _ in range(40))
        rest = n - 40
    else:
        w = ""
        rest = n
    words = [w] if w else []
    while rest > 0:
        k = min(rest, rng.randrange(1, 10))
        word = "".join(rng.choice(ALPHA) for _ in range(k))
        if shape == "hyphen" and k >= 5:
            word = word[:2] + "-" + word[3:]
        words.append(word)
        rest -= k + 1
    rng.shuffle(words)
    return " ".join(words)[:max(n, len(w))].strip() or "x"


def _caps(rng, specs, spacing, first):
    """specs: list of list of lines (strings)"""
    caps = []
    t = None
    for k, lines in enumerate(specs):
        need = need_frames(lines)
        if t is None:
            start_f = need + 2 + (0 if first == "tight" else 300)
        else:
            start_f = prev_start_f + 3 + need + (spacing if isinstance(spacing, (int, float)) else
                                                 {"tight": 0, "plus1": 1, "sparse": 200}[spacing])
        dur_f = 20 if spacing != "sparse" else 60
        if isinstance(spacing, (int, float)):
            dur_f = need + 3 + spacing          # the cue lasts until the next one starts
        caps.append({"s": int(start_f * FRAME_US) + 1, "e": int((start_f + dur_f) * FRAME_US), "lines": lines})
        prev_start_f = start_f
        t = start_f
    return caps


def inputs(ctx):
    rng = random.Random(ctx.seed * 295075147 + 17)
    ins = []
    n = 0
    for ncaps in (1, 2, 3):
        for ln in (1, 31, 32, 33, 64, 80):
            for shape in ("short", "long32", "long40", "hyphen"):
                if shape == "long32" and ln < 32 or shape == "long40" and ln < 40:
                    continue
                for spacing in ("tight", "plus1", "sparse"):
                    for first in ("tight", "late"):
                        if ctx.quick and (n % 3):
                            n += 1
                            continue
                        specs = [[_line(rng, ln, shape)] + ([_line(rng, rng.choice([5, 20]), "short")] if k % 2 else [])
                                 for k in range(ncaps)]
                        ins.append({"id": "g%d" % n, "caps": _caps(rng, specs, spacing, first)})
                        n += 1
    # runs of back-to-back cues with less than a frame, a frame, two frames to spare between one load
    # line and the next (a shift of one cue must not pile up along the run)
    for slack in (-2.75, -2.25, -1.5, -1, -0.5, 0, 0.5):
        for ncaps in (4, 6):
            specs = [[_line(rng, 20 + 3 * (k % 3), "short")] for k in range(ncaps)]
            ins.append({"id": "b%d" % n, "caps": _caps(rng, specs, slack, "late")})
            n += 1
    # the same line of text in several captions (a speaker's name, a refrain) at the same place from
    # the top while the captions have different numbers of rows, and the same caption twice
    for speaker in ("JOHN:", "- Yes.", "MAN 2:"):
        for shapes in ([1, 2], [2, 1], [1, 3, 2], [3, 3, 1], [2, 2], [4, 1, 4]):
            specs = []
            for j, rows in enumerate(shapes):
                specs.append([speaker] + ["%s line %d of %d" % ("abcdefgh"[j], r, rows) for r in range(1, rows + 1)])
            for spacing in ("tight", "sparse"):
                ins.append({"id": "s%d" % n, "caps": _caps(rng, specs, spacing, "late")})
                n += 1
    for k in range(300 if ctx.quick else 15000):
        specs = []
        pool = []
        for _ in range(rng.randrange(1, 5)):
            lines = []
            for _ in range(rng.randrange(1, 5)):
                ln = rng.randrange(1, 81)
                words = []
                rest = ln
                while rest > 0:
                    wl = min(rest, rng.choice([1, 2, 3, 5, 8, 12, rng.randrange(1, 41)]))
                    words.append("".join(rng.choice(ALPHA + PUNCT) for _ in range(wl)))
                    rest -= wl + 1
                lines.append(" ".join(words))
            if pool and rng.random() < 0.3:
                lines[0] = rng.choice(pool)          # a line seen before, again first
            pool.append(lines[0])
            if sum(_wrap_rows(l) for l in lines) <= 15:
                specs.append(lines)
        if specs:
            ins.append({"id": "r%d" % k, "caps": _caps(rng, specs, rng.choice(["tight", "plus1", "sparse"]),
                                                      rng.choice(["tight", "late"]))})
    # the letters of the basic CEA-608 table that are not ASCII (they have codes of their own and read
    # back as themselves), and captions late in the day
    for lines in (["ni\u00f1o caf\u00e9"], ["acci\u00f3n \u00d1and\u00fa", "gar\u00e7on \u00e1gil s\u00ed"], ["\u00e1\u00e9\u00ed\u00f3\u00fa\u00e7\u00d1\u00f1"]):
        for spacing in ("tight", "sparse"):
            ins.append({"id": "nb%d" % n, "caps": _caps(rng, [lines, ["plain next"]], spacing, "late")})
            n += 1
    for base_s in (82_800, 86_340, 86_500, 90_000):      # 23:00:00, 23:59:00, and past 24 hours (hours keep counting)
        caps = _caps(rng, [["late one"], ["late two"]], "sparse", "late")
        for c in caps:
            c["s"] += base_s * 1_000_000
            c["e"] += base_s * 1_000_000
        ins.append({"id": "nb%d" % n, "caps": caps})
        n += 1
    # every fourth input once more with a writer object that has written another document before
    for i in list(ins)[::4]:
        ins.append(dict(i, id=i["id"] + "p", prev=True))
    return ins


def _words(lines):
    return [[ord(c) for c in w] for ln in lines for w in ln.split(" ") if w]


def execute(inp):
    import pycaption
    cs = build.caption_set(build.simple_set([(c["s"], c["e"], c["lines"]) for c in inp["caps"]]))
    rec = {"ok": False, "header_ok": False, "syntax_ok": False, "lines": [], "back": [],
           "caps": [{"start": limbs(c["s"]), "words": _words(c["lines"])} for c in inp["caps"]]}
    try:
        w = pycaption.SCCWriter()
        if inp.get("prev"):
            # the writer object wrote another document before (later times, other text)
            w.write(build.caption_set(build.simple_set([(3_600_000_000, 3_602_000_000, ["an hour in"]),
                                                        (3_605_000_000, 3_607_000_000, ["and more"])])))
        out = w.write(cs)
    except Exception as e:
        rec["err"] = type(e).__name__ + ": " + str(e)[:200]
        return rec
    rec["ok"] = True
    h, s, lines = sccgen.scan_scc(out)
    rec["header_ok"], rec["syntax_ok"] = h, s
    rec["lines"] = [{"tc": l["tc"], "drop": l["drop"], "bytes": l["bytes"], "syms": l["syms"]} for l in lines]
    try:
        back = pycaption.SCCReader().read(out)
        for c in back.get_captions(back.get_languages()[0]):
            rec["back"].append([[ord(ch) for ch in w] for w in c.get_text().replace("\n", " ").split(" ") if w])
    except Exception as e:
        rec["back_err"] = type(e).__name__ + ": " + str(e)[:200]
    return rec


def signature(inp, rec, clause):
    return {"clause": clause.split(" ")[0], "hyphen": any("-" in l for c in inp["caps"] for l in c["lines"]),
            "captions": len(inp["caps"])}


def nontrivial(inp, rec):
    if any(len(l) > 32 or "-" in l for c in inp["caps"] for l in c["lines"]) or len(inp["caps"]) > 1:
        return inp["id"]
    return None


def corrupt(inp, rec):
    import copy
    if not rec["ok"] or not rec["lines"]:
        return []
    out = []
    c = copy.deepcopy(rec)
    c["lines"][0]["bytes"][0][0] ^= 0x80
    out.append(c)
    c = copy.deepcopy(rec)
    c["caps"][0]["words"] = c["caps"][0]["words"] + [[120]]
    out.append(c)
    c = copy.deepcopy(rec)
    c["lines"][0]["tc"][2] = (c["lines"][0]["tc"][2] + 5) % 60
    out.append(c)
    return out
