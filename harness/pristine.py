"""python -m harness.pristine  < term.json  ->  {"dump": digest, "writes": {cfg_key: {"raised", "out"}}}

Runs in a fresh interpreter (its own PYTHONHASHSEED): builds the set the term denotes from
fresh objects, digests it, and writes a deep copy of it with a fresh writer per configuration."""
import copy
import json
import sys
import warnings

warnings.filterwarnings("ignore")


def main():
    from harness import project, session
    term = json.loads(sys.stdin.read())
    try:
        cs = session.make_from_term(term)
    except Exception as e:
        print(json.dumps({"dump": "raise:" + type(e).__name__, "writes": {}}))
        return
    res = {"dump": project.set_digest(cs), "writes": {}}
    for kind, cfgs in session.WRITER_CONFIGS.items():
        for opts in cfgs:
            res["writes"][session.cfg_key(kind, opts)] = session.write_digest(kind, opts, copy.deepcopy(cs))
            for args in session.WRITE_ARGS.get(kind, []):
                res["writes"][session.cfg_key(kind, opts, args)] = session.write_digest(kind, opts, copy.deepcopy(cs), args)
    print(json.dumps(res))


if __name__ == "__main__":
    main()
