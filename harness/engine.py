"""Generic check engine shared by all properties.

A property module provides

    PID                      "C20"
    TRACE                    name of the Trace_* spec that judges records
    def model_runs(ctx)      run the MC_* configurations (exhaustive design-model
                             checks); returns list of TlcResult; may also return
                             abstract inputs enumerated by TLC (direction G)
    def inputs(ctx)          list of abstract inputs (JSON-able dicts with "id")
    def execute(inp)         run the real code on one input -> record for TLC
    def signature(inp, rec, clause)   dict used for known-finding matching
    def nontrivial(inp, rec) key or None (distinct non-trivial case counting)
    def corrupt(inp, rec)    list of corrupted copies of an accepted record that
                             the Trace spec must reject (negative controls)

The engine executes inputs on a process pool, hands all records to TLC, and
turns REJECT lines into KNOWN-FINDING / VIOLATION lines.
"""
import hashlib
import json
import multiprocessing
import os
import sys
import time
import traceback

from . import tlc

ROOT = tlc.ROOT


class Ctx:
    def __init__(self, pid, tier, seed):
        self.pid = pid
        self.tier = tier
        self.seed = seed
        self.quick = tier == "quick"
        self.tlc_states = 0
        self.tlc_transitions = 0
        self.tlc_runs = []
        self.notes = []
        self.extra = {}

    def add_tlc(self, res, what=""):
        self.tlc_states += res.distinct
        self.tlc_transitions += res.generated
        self.tlc_runs.append({"cmd": res.cmd, "what": what, "distinct": res.distinct,
                              "generated": res.generated, "wall_s": round(res.wall, 2)})

    def note(self, s):
        self.notes.append(s)


def _load_findings():
    p = os.path.join(ROOT, "known_findings.json")
    if not os.path.exists(p):
        return []
    with open(p) as f:
        return json.load(f)["findings"]


def _matches(entry, pid, sig):
    if entry.get("property") != pid or entry.get("status") != "open":
        return False
    for k, v in entry.get("match", {}).items():
        if sig.get(k) != v:
            return False
    return True


_MOD = None


_COV_SEEN = set()


def _cov_tracer(repo):
    prefix = os.path.join(repo, "pycaption") + os.sep
    new = set()

    def local(frame, event, arg):
        if event == "line":
            key = (frame.f_code.co_filename, frame.f_lineno)
            if key not in _COV_SEEN:
                _COV_SEEN.add(key)
                new.add(key)
        return local

    def tracer(frame, event, arg):
        if frame.f_code.co_filename.startswith(prefix):
            return local(frame, "line", arg) if event == "call" else local
        return None
    return tracer, new


def _exec_one(inp):
    if os.environ.get("VERIF_COV"):
        # self-measurement only (tools/coverage.py): which lines of pycaption the inputs of a check reach
        repo = os.path.realpath(os.environ.get("VERIF_REPO", "/repo"))
        tracer, new = _cov_tracer(repo)
        sys.settrace(tracer)
        try:
            rec = _exec_one_plain(inp)
        finally:
            sys.settrace(None)
        rec["_cov"] = sorted([f[len(repo) + 1:], n] for f, n in new)
        return rec
    return _exec_one_plain(inp)


def _exec_one_plain(inp):
    try:
        rec = _MOD.execute(inp)
        rec["id"] = inp["id"]
        return rec
    except Exception as e:
        return {"id": inp["id"], "_crash": traceback.format_exc(), "_in_repo": _raised_in_repo(e),
                "_exc": type(e).__name__}


def _raised_in_repo(e):
    """True when the exception was raised by pycaption's own code (innermost frame under the
    repository), not by the harness: the implementation failed on an input of the property's
    domain, which no trace specification can accept."""
    repo = os.path.realpath(os.environ.get("VERIF_REPO", "/repo")) + os.sep
    tb = traceback.extract_tb(e.__traceback__)
    return bool(tb) and os.path.realpath(tb[-1].filename).startswith(repo)


def execute_all(mod, inputs, procs=None):
    global _MOD
    _MOD = mod
    procs = procs or min(16, os.cpu_count() or 4)
    if (len(inputs) < 64 and not getattr(mod, "FORK_PER_INPUT", False)) or procs == 1 or getattr(mod, "SERIAL", False):
        return [_exec_one(i) for i in inputs]
    ctx = multiprocessing.get_context("fork")
    if getattr(mod, "FORK_PER_INPUT", False):
        # every input runs in a child forked from this (pristine) parent: nothing one history
        # leaves behind in module or class state can reach another history
        with ctx.Pool(procs, maxtasksperchild=1) as pool:
            return pool.map(_exec_one, inputs, chunksize=1)
    with ctx.Pool(procs) as pool:
        return pool.map(_exec_one, inputs, chunksize=max(1, len(inputs) // (procs * 8)))


def write_replay(pid, inp, rec, clause):
    d = os.path.join(ROOT, "replays", pid)
    os.makedirs(d, exist_ok=True)
    blob = json.dumps({"property": pid, "input": inp, "record": rec, "clause": clause},
                      ensure_ascii=True, sort_keys=True, indent=1)
    h = hashlib.sha1(json.dumps(inp, sort_keys=True).encode()).hexdigest()[:12]
    path = os.path.join(d, "%s-%s.json" % (clause.split(" ")[0][:40].replace("/", "_"), h))
    with open(path, "w") as f:
        f.write(blob)
    return path


def run_check(mod, tier, seed, replay=None):
    t0 = time.time()
    pid = mod.PID
    ctx = Ctx(pid, tier, seed)
    findings = _load_findings()
    try:
        if replay:
            with open(replay) as f:
                inputs = [json.load(f)["input"]]
            inputs[0].setdefault("id", "replay")
        else:
            if hasattr(mod, "model_runs"):
                mod.model_runs(ctx)
            inputs = mod.inputs(ctx)
        ids = set()
        for n, i in enumerate(inputs):
            if "id" not in i:
                i["id"] = "i%d" % n
            if i["id"] in ids:
                raise tlc.MachineryError("duplicate input id %s" % i["id"])
            ids.add(i["id"])
        by_id = {i["id"]: i for i in inputs}
        records = execute_all(mod, inputs)
        crashed = [r for r in records if "_crash" in r and not r.get("_in_repo")]
        if crashed:
            raise tlc.MachineryError("harness crashed on input %s:\n%s" % (
                json.dumps(by_id[crashed[0]["id"]])[:2000], crashed[0]["_crash"]))
        # pycaption itself raised where the harness expects none: there is no observation to judge
        if os.environ.get("VERIF_COV"):
            cov = set()
            for r in records:
                cov.update((f, n) for f, n in r.pop("_cov", []))
            os.makedirs(os.path.join(ROOT, "build"), exist_ok=True)
            with open(os.path.join(ROOT, "build", "cov-%s.json" % pid), "w") as f:
                json.dump(sorted(cov), f)
        impl_raised = [r for r in records if r.get("_in_repo")]
        records = [r for r in records if "_crash" not in r]
        rec_by_id = {r["id"]: r for r in records}
        judged = 0
        rejects = []
        # records may name the trace spec that judges them (default mod.TRACE)
        groups = {}
        for r in records:
            groups.setdefault(r.pop("_trace", mod.TRACE), []).append(r)
        for trace, recs in groups.items():
            rj, st = tlc.judge(trace, recs, label=pid,
                               workers=getattr(mod, "TRACE_WORKERS", None))
            rejects += rj
            judged += st["records"]
            ctx.tlc_states += st["distinct"]
            ctx.tlc_transitions += st["generated"]
            ctx.tlc_runs.append({"cmd": st.get("cmd", ""), "what": "trace validation of %d recorded executions" % st["records"],
                                 "distinct": st["distinct"], "generated": st["generated"],
                                 "wall_s": round(st["wall"], 2)})
        rejected_ids = {rid for rid, _ in rejects}

        # negative controls: corrupted copies of accepted records must be rejected
        controls = 0
        if not replay and hasattr(mod, "corrupt"):
            ctl = []
            want = 12 if ctx.quick else 60
            for r in records:
                if r["id"] in rejected_ids:
                    continue
                for k, c in enumerate(mod.corrupt(by_id[r["id"]], r)):
                    c = dict(c)
                    c["id"] = "ctl-%s-%d" % (r["id"], k)
                    ctl.append((c.pop("_trace", mod.TRACE), c))
                if len(ctl) >= want:
                    break
            cg = {}
            for trace, c in ctl:
                cg.setdefault(trace, []).append(c)
            for trace, cs in cg.items():
                rj, st = tlc.judge(trace, cs, label=pid + "-ctl", workers=4)
                got = {rid for rid, _ in rj}
                missed = [c["id"] for c in cs if c["id"] not in got]
                if missed:
                    raise tlc.MachineryError(
                        "negative control accepted by %s: %s" % (trace, missed[:3]))
                controls += len(cs)
        if not replay and hasattr(mod, "model_controls"):
            controls += mod.model_controls(ctx)

        # verdicts
        violations = []
        known_hits = {}
        reval = []
        out_of_scope = 0
        for rid, clause in rejects:
            inp, rec = by_id[rid], rec_by_id[rid]
            sig = mod.signature(inp, rec, clause) if hasattr(mod, "signature") else {"clause": clause}
            sig.setdefault("clause", clause.split(" ")[0])
            if sig.get("out_of_scope"):
                out_of_scope += 1
                continue
            hit = None
            for e in findings:
                if _matches(e, pid, sig):
                    hit = e
                    break
            if hit:
                known_hits.setdefault(hit["id"], [hit, 0, inp])
                known_hits[hit["id"]][1] += 1
                if "revalidate" in hit:
                    # dense finding class: the record must be accepted by the requirement
                    # with exactly the listed deviation enabled, otherwise it is a new violation
                    r2 = dict(rec)
                    r2.update(hit["revalidate"]["fields"])
                    r2["id"] = "rv-" + rid
                    reval.append((hit["revalidate"].get("trace", mod.TRACE), r2, rid, clause, sig))
            else:
                violations.append((inp, rec, clause, sig))
        for r in impl_raised:
            violations.append((by_id[r["id"]], {"id": r["id"], "traceback": r["_crash"][-3000:]},
                               "ImplementationRaised:" + r["_exc"],
                               {"clause": "ImplementationRaised", "exception": r["_exc"]}))
        if reval:
            groups2 = {}
            for trace, r2, rid, clause, sig in reval:
                groups2.setdefault(trace, []).append(r2)
            bad = {}
            for trace, rs in groups2.items():
                rj, st = tlc.judge(trace, rs, label=pid + "-reval")
                ctx.tlc_states += st["distinct"]
                ctx.tlc_transitions += st["generated"]
                for rid2, cl2 in rj:
                    bad[rid2] = cl2
            for trace, r2, rid, clause, sig in reval:
                if r2["id"] in bad:
                    sig = dict(sig, beyond_known_deviation=bad[r2["id"]])
                    violations.append((by_id[rid], rec_by_id[rid], clause + " (not explained by the known deviation: " + bad[r2["id"]] + ")", sig))
        for kid, (e, n, inp) in sorted(known_hits.items()):
            print("KNOWN-FINDING: property=%s %s %s (%d cases in this run)" % (pid, kid, e["what"], n))
        shown = 0
        for inp, rec, clause, sig in violations:
            if shown < 20:
                path = write_replay(pid, inp, rec, clause)
                print("VIOLATION property=%s replay=%s clause=%s sig=%s" % (
                    pid, path, clause, json.dumps(sig, sort_keys=True)))
            shown += 1
        if shown > 20:
            print("... %d more violations of %s" % (shown - 20, pid))

        # evidence
        nontriv = set()
        for r in records:
            k = mod.nontrivial(by_id[r["id"]], r) if hasattr(mod, "nontrivial") else r["id"]
            if k is not None:
                nontriv.add(json.dumps(k, sort_keys=True) if not isinstance(k, str) else k)
        samples = []
        step = max(1, len(records) // 5)
        for r in records[::step][:5]:
            samples.append({"input": _clip(by_id[r["id"]]), "record": _clip(r)})
        cov = {
            "states": max(1, ctx.tlc_states),
            "transitions": max(1, ctx.tlc_transitions),
            "traces_validated_against_impl": judged,
            "samples": samples,
            "evaluations": len(records),
            "distinct_nontrivial": len(nontriv),
            "rule": getattr(mod, "RULE", ""),
            "exhaustive": bool(ctx.extra.get("exhaustive", False)),
            "negative_controls_rejected": controls,
            "known_finding_cases": sum(v[1] for v in known_hits.values()),
            "rejected_records": len(rejects),
            "rejected_for_another_propertys_clause": out_of_scope,
            "tlc_runs": ctx.tlc_runs,
            "checker_cmd": "tlc (tla2tools 1.8.0) via harness/tlc.py; see tlc_runs",
            "notes": ctx.notes,
        }
        cov.update({k: v for k, v in ctx.extra.items() if k != "exhaustive"})
        ev = {
            "property_id": pid, "tier": tier, "seed": seed, "level": "model_checking",
            "coverage": cov,
            "assumptions": getattr(mod, "ASSUMPTIONS", []),
            "wall_s": round(time.time() - t0, 2),
            "violations": len(violations),
        }
        if not replay:
            os.makedirs(os.path.join(ROOT, "evidence"), exist_ok=True)
            with open(os.path.join(ROOT, "evidence", pid + ".json"), "w") as f:
                json.dump(ev, f, indent=1, ensure_ascii=True)
        print("%s %s: %d records judged by TLC, %d rejected (%d known), %d violations, "
              "%d controls rejected, TLC states %d, %.1fs" % (
                  pid, tier, judged, len(rejects), cov["known_finding_cases"],
                  len(violations), controls, ctx.tlc_states, time.time() - t0))
        return 1 if violations else 0
    except tlc.MachineryError as e:
        print("MACHINERY-FAILURE property=%s: %s" % (pid, e), file=sys.stderr)
        return 2
    except Exception as e:
        if _raised_in_repo(e):
            # pycaption raised while the inputs of the check were being prepared (writers are used
            # to make documents): reported as a violation, with the traceback as the replay
            path = write_replay(pid, {"id": "prepare"}, {"traceback": traceback.format_exc()[-3000:]},
                                "ImplementationRaised:" + type(e).__name__)
            print("VIOLATION property=%s replay=%s clause=ImplementationRaised:%s (while preparing inputs)" % (
                pid, path, type(e).__name__))
            return 1
        print("MACHINERY-FAILURE property=%s: %s" % (pid, traceback.format_exc()), file=sys.stderr)
        return 2


def _clip(o, n=1500):
    s = json.dumps(o, ensure_ascii=True)
    if len(s) <= n:
        return o
    return {"clipped": s[:n]}
