"""C12  Positioning survives DFXP round trips and maps faithfully to WebVTT settings."""
import itertools
import random
from fractions import Fraction

from . import build, render, scan, tlc
from .c13 import tok
from .num import limbs

PID = "C12"
TRACE = "Trace_Positioning"
RULE = ("A: (G) every case of MC_Positioning (layout names {none, A, B, default-equal, webvtt-only} at set / language / "
        "caption / node level, node plain or styled) and a grid exhaustive in None-ness of origin / extent / padding / "
        "alignment, in the 23 alignment pairs and in padding values, attached at language, caption, styled-span and "
        "plain-node level, written by DFXPWriter (identity options, and default options for layouts inside the safe "
        "area) and read back by DFXPReader: effective layout per visible character judged by TLC; B: captions with "
        "1-3 layout groups written by WebVTTWriter: align / position / line / size tokens judged by TLC with exact "
        "rationals; WebVTT->WebVTT with arbitrary cue-setting strings; (T) random values with two decimals. "
        "non-trivial = some level carries a layout; distinct by input")
ASSUMPTIONS = ["a layout attached to the CaptionSet itself is a stimulus only (the writer gives it no region)",
               "WebVTT arithmetic is judged for layouts that have an origin; an absent alignment may be written as 'start' or omitted",
               "WebVTT cue splitting is judged for captions whose text nodes all carry a layout"]

NONE = {"cls": "none"}


def A_size(v, u="%"):
    f = Fraction(v)
    return {"cls": "size", "n": limbs(f.numerator), "d": limbs(f.denominator), "u": u}


def A_layout(d):
    """build-style layout description -> abstract layout for TLC"""
    if d is None:
        return NONE
    o, e, p, a = d.get("o"), d.get("e"), d.get("p"), d.get("a")
    return {"cls": "layout", "truthy": True,
            "o": {"cls": "point", "x": A_size(*o[0]), "y": A_size(*o[1])} if o else NONE,
            "e": {"cls": "stretch", "h": A_size(*e[0]), "v": A_size(*e[1])} if e else NONE,
            "p": {"cls": "padding", "b": A_size(*p[0]), "a": A_size(*p[1]), "s": A_size(*p[2]), "e": A_size(*p[3])} if p else NONE,
            "a": {"cls": "align", "h": a[0] or "none", "v": a[1] or "none"} if a else NONE}


def O_layout(l):
    """observed pycaption Layout -> abstract layout"""
    if l is None:
        return NONE

    def sz(s):
        # a Size holds a binary float; its shortest round-trip decimal spelling is the value
        # the document carried ("37.16%"), which is what the abstract layouts are written in
        return A_size(Fraction(repr(float(s.value))), s.unit.value)
    return {"cls": "layout", "truthy": bool(l),
            "o": {"cls": "point", "x": sz(l.origin.x), "y": sz(l.origin.y)} if l.origin else NONE,
            "e": {"cls": "stretch", "h": sz(l.extent.horizontal), "v": sz(l.extent.vertical)} if l.extent else NONE,
            "p": {"cls": "padding", "b": sz(l.padding.before), "a": sz(l.padding.after), "s": sz(l.padding.start),
                  "e": sz(l.padding.end)} if l.padding else NONE,
            "a": {"cls": "align", "h": l.alignment.horizontal.value if l.alignment.horizontal else "none",
                  "v": l.alignment.vertical.value if l.alignment.vertical else "none"} if l.alignment else NONE}


NAMED = {
    "none": None,
    "A": {"o": [["10", "%"], ["20", "%"]], "e": [["50", "%"], ["30", "%"]]},
    "B": {"o": [["30", "%"], ["40", "%"]], "e": [["40", "%"], ["20", "%"]], "a": ["center", "top"]},
    "D": {"a": ["start", "bottom"]},
    "W": {"w": "line:5%"},
}
HS = ["left", "center", "right", "start", "end", None]
VS = ["top", "center", "bottom", None]


def model_runs(ctx):
    res = tlc.run("MC_Positioning")
    ctx.add_tlc(res, "writer region lookup o reader region resolution keeps the effective layout (styled spans; plain-node layouts are the known deviation)")
    ctx._cases = res.cases()
    res2 = tlc.run("MC_Groups")
    ctx.add_tlc(res2, "WebVTT grouping loop (state machine) = one cue per run of equal node layouts, unpositioned text taking the "
                      "caption's layout, on every list of <= 4 node layouts over {none, a, b} x caption layout {none, a, c}")
    ctx._groups = res2.cases()
    ctx.extra["exhaustive"] = True
    ctx.extra["bound"] = ("5^4 x 2 layout-name assignments; grid of 16 part masks x 23 alignment pairs x padding values x 4 levels; "
                          "WebVTT grouping: 120 node-layout lists x 3 caption layouts")


def model_controls(ctx):
    r = tlc.run("MC_Positioning", cfg="MC_Positioning_neg", allow_violation=True, workers=4)
    if r.violated != "RoundTripKeepsEffectiveLayout":
        raise tlc.MachineryError("MC_Positioning_neg not refuted")
    ctx.add_tlc(r, "negative control: with plain-node layouts in scope the design model is refuted")
    r2 = tlc.run("MC_Groups", cfg="MC_Groups_neg", allow_violation=True, workers=4)
    if r2.violated != "ModelMeetsRequirement":
        raise tlc.MachineryError("MC_Groups_neg not refuted")
    ctx.add_tlc(r2, "negative control: the grouping loop as found (split only while the running layout is set) is refuted")
    return 2


def _grid(rng, quick):
    lays = []
    pairs = [(h, v) for h in HS for v in VS if (h, v) != (None, None)]
    pads = [[["0", "%"]] * 4, [["1", "%"], ["2", "%"], ["3", "%"], ["4", "%"]], [["2.5", "%"]] * 4]
    for mask in itertools.product([0, 1], repeat=4):
        if not any(mask):
            continue
        sel = pairs if mask == (0, 0, 0, 1) else (pairs[::5] if quick else pairs[::2])
        for (h, v) in (sel if mask[3] else [(None, None)]):
            for pd in (pads if mask[2] else [None]):
                d = {}
                if mask[0]:
                    d["o"] = [["12.5", "%"], ["15", "%"]]
                if mask[1]:
                    d["e"] = [["60", "%"], ["25.25", "%"]]
                if pd:
                    d["p"] = pd
                if mask[3]:
                    d["a"] = [h, v]
                lays.append(d)
    return lays


def _set_desc(lang_l, cap_l, node_l, styled, set_l=None, second=True):
    nodes = [["t", "aa "]]
    if styled == "span":
        # the layout sits on the style nodes only (the nodes the DFXP writer turns into <span region=..>)
        nodes += [["s", True, {"italics": True}, node_l], ["t", "bb"], ["s", False, {"italics": True}, node_l]]
    elif styled:
        nodes += [["s", True, {"italics": True}, node_l], ["t", "bb", node_l], ["s", False, {"italics": True}, node_l]]
    else:
        nodes += [["t", "bb", node_l]]
    caps = [{"s": 1000000, "e": 2000000, "layout": cap_l, "nodes": nodes}]
    if second:
        caps.append({"s": 3000000, "e": 4000000, "nodes": [["t", "cc"]]})
    return {"langs": [{"lang": "en-US", "layout": lang_l, "caps": caps}], "layout": set_l}


def inputs(ctx):
    rng = random.Random(ctx.seed * 179424673 + 12)
    ins = []
    n = 0
    for c in ctx._cases:
        if c["set"] != "none" and all(c[k] == "none" for k in ("lang", "cap1", "node")):
            continue
        ins.append({"id": "g%d" % n, "k": "dfxprt", "set": _set_desc(NAMED[c["lang"]], NAMED[c["cap1"]], NAMED[c["node"]],
                                                                      c["styled"], NAMED[c["set"]]), "opts": "identity"})
        n += 1
    grid = _grid(rng, ctx.quick)
    for d in grid:
        for level in ("lang", "cap", "styled", "plain", "span"):
            desc = _set_desc(d if level == "lang" else None, d if level == "cap" else None,
                             d if level in ("styled", "plain", "span") else None,
                             "span" if level == "span" else level == "styled")
            ins.append({"id": "g%d" % n, "k": "dfxprt", "set": desc, "opts": "identity", "level": level})
            n += 1
            if "o" not in d or "e" in d:
                if level != "lang" or "o" not in d:
                    ins.append({"id": "g%d" % n, "k": "dfxprt", "set": desc, "opts": "default", "level": level})
                    n += 1
        ins.append({"id": "g%d" % n, "k": "vttpos", "groups": [d], "cap": None, "lang": None})
        n += 1
        ins.append({"id": "g%d" % n, "k": "vttpos", "groups": [None], "cap": d, "lang": None})
        n += 1
        ins.append({"id": "g%d" % n, "k": "vttpos", "groups": [None], "cap": None, "lang": d})
        n += 1

    # layouts whose right / bottom edge lies just inside the safe area (85-90 % / 90-95 %): under the
    # default options they come back unchanged
    for (ox, oy, ex, ey) in (("10", "10", "50", "82"), ("10", "60", "50", "33"), ("40", "10", "48", "30"), ("35", "55", "55", "40"),
                             ("10", "10", "80", "85"), ("5", "90", "50", "5")):
        d = {"o": [[ox, "%"], [oy, "%"]], "e": [[ex, "%"], [ey, "%"]]}
        for level in ("cap", "styled"):
            desc = _set_desc(None, d if level == "cap" else None, d if level == "styled" else None, level == "styled")
            ins.append({"id": "g%d" % n, "k": "dfxprt", "set": desc, "opts": "default", "level": level})
            n += 1
    # the zero corner and its neighbourhood: a left / top offset of exactly 0 (with no, zero or
    # positive padding on that side) is still written; a width that padding eats up
    zc = 0
    for ox in ("0", "1/100", "10"):
        for oy in ("0", "1/100", "20"):
            for pad in (None, ["0", "0", "0", "0"], ["2", "0", "0", "3"], ["0", "3", "2", "0"]):
                for ext in (None, ["50", "30"], ["5", "30"]):
                    if ctx.quick and zc % 2:
                        zc += 1
                        continue
                    zc += 1
                    d = {"o": [[ox, "%"], [oy, "%"]]}
                    if pad:
                        d["p"] = [[v, "%"] for v in pad]
                    if ext:
                        d["e"] = [[ext[0], "%"], [ext[1], "%"]]
                    for where in ("node", "cap", "lang"):
                        ins.append({"id": "z%d" % n, "k": "vttpos", "groups": [d if where == "node" else None],
                                    "cap": d if where == "cap" else None, "lang": d if where == "lang" else None})
                        n += 1

    # two captions whose layouts differ only beyond the second decimal: each keeps its own layout
    # (as printed: two decimals), none falls back to the default region
    for a, b in (("30", "30.001"), ("33.333", "33.334"), ("66.666", "66.667"), ("12.344", "12.34"), ("0", "0.004")):
        for part in ("o", "e", "p"):
            def lay(v):
                d = {"o": [["10", "%"], ["20", "%"]], "e": [["50", "%"], ["30", "%"]]}
                if part == "o":
                    d["o"] = [[v, "%"], ["20", "%"]]
                elif part == "e":
                    d["e"] = [["50", "%"], [v if v != "0" else "25", "%"]]
                else:
                    d["p"] = [["1", "%"], [v, "%"], ["1", "%"], ["1", "%"]]
                return d
            for order in ((a, b), (b, a)):
                desc = {"langs": [{"lang": "en-US", "layout": None, "caps": [
                    {"s": 1000000, "e": 2000000, "layout": lay(order[0]), "nodes": [["t", "first"]]},
                    {"s": 3000000, "e": 4000000, "layout": lay(order[1]), "nodes": [["t", "second"]]},
                    {"s": 5000000, "e": 6000000, "nodes": [["t", "third"]]}]}], "layout": None}
                ins.append({"id": "n%d" % n, "k": "dfxprt", "set": desc, "opts": "identity", "round2": True})
                n += 1

    def rnd_layout():
        d = {}
        x, y = rng.randrange(0, 6000) / 100, rng.randrange(0, 6000) / 100
        if rng.random() < 0.8:
            d["o"] = [[str(Fraction(x).limit_denominator(100)), "%"], [str(Fraction(y).limit_denominator(100)), "%"]]
        if rng.random() < 0.6:
            d["e"] = [[str(Fraction(rng.randrange(1000, 3000), 100)), "%"], [str(Fraction(rng.randrange(500, 3000), 100)), "%"]]
        if rng.random() < 0.5:
            d["p"] = [[str(Fraction(rng.randrange(0, 400), 100)), "%"] for _ in range(4)]
        if rng.random() < 0.6 or not d:
            h, v = rng.choice(HS), rng.choice(VS)
            if h or v:
                d["a"] = [h, v]
        if not d:
            d["a"] = ["left", None]
        return d
    for k in range(300 if ctx.quick else 50000):
        if rng.random() < 0.5:
            ins.append({"id": "r%d" % k, "k": "dfxprt", "set": _set_desc(
                rnd_layout() if rng.random() < 0.4 else None, rnd_layout() if rng.random() < 0.5 else None,
                rnd_layout() if rng.random() < 0.5 else None, rng.choice([True, True, False, "span"]),
                rnd_layout() if rng.random() < 0.2 else None), "opts": "identity"})
        else:
            g = [rnd_layout() if rng.random() < 0.85 else None for _ in range(rng.randrange(1, 4))]
            ins.append({"id": "r%d" % k, "k": "vttpos", "groups": g, "cap": rnd_layout() if rng.random() < 0.3 else None,
                        "lang": None})
    # one caption mixing text that has a layout of its own with text that has none (what an API user,
    # or a merge of captions, produces): the text without one takes the caption's / language's layout
    # and is a cue of its own next to the positioned text
    d1 = {"o": [["10", "%"], ["20", "%"]], "e": [["50", "%"], ["30", "%"]]}
    d2 = {"o": [["40", "%"], ["60", "%"]], "a": ["left", None]}
    d3 = {"o": [["25", "%"], ["5", "%"]], "e": [["30", "%"], ["10", "%"]], "a": ["right", None]}
    for groups in ([d1, None], [None, d1], [d1, None, d2], [None, d1, None], [d1, None, d1], [d2, None], [d1, d2, None]):
        for cap in (None, d3, d1):
            for lang in (None, d2):
                ins.append({"id": "m%d" % n, "k": "vttpos", "groups": groups, "cap": cap, "lang": lang})
                n += 1
    # two and three captions that hold the very same layout objects (padding included), at node,
    # caption and language level
    for d in [g for g in grid if g.get("p") and g.get("o")][: (12 if ctx.quick else 200)]:
        for where in ("node", "cap", "lang"):
            for rep in (2, 3):
                ins.append({"id": "rp%d" % n, "k": "vttpos", "groups": [d if where == "node" else None],
                            "cap": d if where == "cap" else None, "lang": d if where == "lang" else None, "repeat": rep})
                n += 1
    # every behaviour of the grouping model (MC_Groups), replayed into the real writer
    conc = {"none": None, "a": d1, "b": d2, "c": d3}
    for k, c in enumerate(ctx._groups):
        ins.append({"id": "mc%d" % k, "k": "vttpos", "groups": [conc[x] for x in c["nodes"]], "cap": conc[c["cap"]], "lang": None})
    for k, st in enumerate(["line:5% align:left", "position:10% size:35%", "align:end", "line:0 position:50%,center",
                            "vertical:rl", "region:fred", "align:left\tposition:50%", "align:left  position:50%",
                            "line:5%\t\talign:left   size:40%", "position:10%,line-left align:center size:35%"]):
        ins.append({"id": "w%d" % k, "k": "vttpos", "raw": st})
        # "one or more SPACE or TAB" between the end time and the settings, and around the arrow
        for j, (sep, arrow) in enumerate((("\t", " --> "), ("  ", " --> "), (" \t", " --> "), ("\t ", "\t-->\t"), (" ", "  -->  "),
                                         ("\t\t", " -->\t"))):
            ins.append({"id": "w%d-%d" % (k, j), "k": "vttpos", "raw": st, "sep": sep, "arrow": arrow})
    return ins


def _round2(desc):
    """the description with every size as DFXP prints it (two decimals)"""
    import copy
    d = copy.deepcopy(desc)

    def fix(l):
        if not l:
            return
        for key in ("o", "e", "p"):
            for sz in l.get(key) or []:
                sz[0] = str(Fraction(repr(round(float(Fraction(sz[0])), 2))))
    fix(d.get("layout"))
    for lg in d["langs"]:
        fix(lg.get("layout"))
        for c in lg["caps"]:
            fix(c.get("layout"))
            for nd in c["nodes"]:
                if nd[0] == "t" and len(nd) > 2:
                    fix(nd[2])
                elif nd[0] == "s" and len(nd) > 3:
                    fix(nd[3])
    return d


def _abs_set(desc):
    langs = []
    for lg in desc["langs"]:
        caps = []
        for c in lg["caps"]:
            nodes = []
            for nd in c["nodes"]:
                if nd[0] == "t":
                    nodes.append({"l": A_layout(nd[2]) if len(nd) > 2 and nd[2] else NONE, "s": [ord(ch) for ch in nd[1]],
                                  "styled": False})
            # a text node between style nodes of the same layout is "styled"
            # ... and text without a layout of its own has the layout of the span that wraps it
            k = 0
            inside = False
            span_l = None
            for nd in c["nodes"]:
                if nd[0] == "s":
                    inside = bool(nd[1])
                    span_l = nd[3] if inside and len(nd) > 3 else None
                elif nd[0] == "t":
                    nodes[k]["styled"] = inside
                    if inside and span_l and nodes[k]["l"] == NONE:
                        nodes[k]["l"] = A_layout(span_l)
                    k += 1
            caps.append({"l": A_layout(c.get("layout")), "nodes": nodes})
        langs.append({"l": A_layout(lg.get("layout")), "caps": caps})
    return {"langs": langs, "l": A_layout(desc.get("layout"))}


def execute(inp):
    import pycaption
    from pycaption import CaptionNode
    if inp["k"] == "dfxprt":
        cs = build.caption_set(inp["set"])
        rec = {"k": "dfxprt", "set": _abs_set(_round2(inp["set"]) if inp.get("round2") else inp["set"]), "obs": [], "ok": False}
        kw = {"relativize": False, "fit_to_screen": False} if inp["opts"] == "identity" else {}
        try:
            out = pycaption.DFXPWriter(**kw).write(cs)
            back = pycaption.DFXPReader().read(out)
            for lg in back.get_languages():
                caps = []
                for c in back.get_captions(lg):
                    chars = []
                    for nd in c.nodes:
                        if nd.type_ == CaptionNode.TEXT:
                            lay = O_layout(nd.layout_info)
                            chars += [[ord(ch), lay] for ch in nd.content]
                    caps.append(chars)
                rec["obs"].append(caps)
            rec["ok"] = True
        except Exception as e:
            rec["err"] = type(e).__name__ + ": " + str(e)[:200]
        return rec
    # WebVTT
    rec = {"k": "vttpos", "ok": False, "groups": [], "cues": []}
    try:
        if "raw" in inp:
            doc = render.webvtt_doc([("00:01.000", "00:02.000", ["hello"], inp["raw"])])
            if "sep" in inp:
                doc = doc.replace("00:02.000 ", "00:02.000" + inp["sep"], 1).replace(" --> ", inp["arrow"], 1)
            cs = pycaption.WebVTTReader().read(doc)
            rec["groups"] = [{"l": NONE, "nl": NONE, "raw": inp["raw"]}]
        else:
            nodes = []
            for k, g in enumerate(inp["groups"]):
                if k:
                    nodes.append(["b"])
                nodes.append(["t", "part%d" % k] + ([g] if g else []))
            cs = build.caption_set({"langs": [{"lang": "en-US", "layout": inp["lang"], "caps": [
                {"s": 1000000, "e": 2000000, "layout": inp["cap"], "nodes": nodes}]}]})
            rec["groups"] = [{"l": A_layout(g or inp["cap"] or inp["lang"]), "nl": A_layout(g), "raw": ""} for g in inp["groups"]]
            rec["node_layouts"] = [A_layout(g) for g in inp["groups"]]
        if "raw" not in inp:
            # another writer object, with other options, converts an equal set first: what it
            # worked out must not reach the writer under test
            try:
                pycaption.WebVTTWriter(fit_to_screen=True, video_width=640, video_height=360).write(build.caption_set(
                    {"langs": [{"lang": "en-US", "layout": inp["lang"], "caps": [
                        {"s": 1000000, "e": 2000000, "layout": inp["cap"], "nodes": nodes}]}]}))
            except Exception:
                pass
        if inp.get("repeat"):
            # the caption once more (later in time) with the very same layout objects: what the writer
            # worked out for the first must not have changed them (the LAST caption's cues are judged)
            from pycaption import Caption
            lst = cs.get_captions("en-US")
            c0 = lst[0]
            for j in range(1, inp["repeat"]):
                nn = [CaptionNode.create_text(x.content, layout_info=x.layout_info) if x.type_ == CaptionNode.TEXT
                      else CaptionNode.create_break(layout_info=x.layout_info) for x in c0.nodes]
                lst.append(Caption(c0.start + j * 2000000, c0.end + j * 2000000, nn, layout_info=c0.layout_info))
        out = pycaption.WebVTTWriter(fit_to_screen=False).write(cs)
        ok, cues = scan.scan_webvtt(out)
        if inp.get("repeat"):
            timed = [c for c in cues if c["timing"] is not None]
            last = scan.vtt_fields(timed[-1]["timing"]) if timed else None
            cues = [c for c in timed if tuple((scan.vtt_fields(c["timing"]) or (None, None))[:2]) == tuple(last[:2])] if last else cues
        first = None
        for c in cues:
            if c["timing"] is None:
                continue
            f = scan.vtt_fields(c["timing"])
            if f is None:
                rec["cues"].append({"same_times": False, "align": "", "pos": NONE, "line": NONE, "size": NONE, "raw": ""})
                continue
            times = (f[0], f[1])
            first = first or times
            cue = {"same_times": times == first, "align": "", "pos": NONE, "line": NONE, "size": NONE, "raw": f[2]}
            for s in f[2].split():
                key, _, v = s.partition(":")
                if key == "align":
                    cue["align"] = v
                elif key == "position":
                    cue["pos"] = tok(v)
                elif key == "line":
                    cue["line"] = tok(v)
                elif key == "size":
                    cue["size"] = tok(v)
            rec["cues"].append(cue)
        rec["ok"] = ok
    except Exception as e:
        rec["err"] = type(e).__name__ + ": " + str(e)[:200]
    return rec


def signature(inp, rec, clause):
    sig = {"clause": clause.split(" ")[0], "k": inp["k"]}
    if inp["k"] == "dfxprt":
        plain = False
        for lg in inp["set"]["langs"]:
            for c in lg["caps"]:
                for nd in c["nodes"]:
                    if nd[0] == "t" and len(nd) > 2 and nd[2]:
                        # styled text is preceded by a style node carrying the same layout
                        i = c["nodes"].index(nd)
                        if not (i > 0 and c["nodes"][i - 1][0] == "s" and c["nodes"][i - 1][1]):
                            plain = True
        sig["plain_node_layout"] = plain
    return sig


def nontrivial(inp, rec):
    return inp["id"]


def corrupt(inp, rec):
    import copy
    out = []
    if not rec["ok"]:
        return out
    if rec["k"] == "dfxprt":
        for li, l in enumerate(rec["obs"]):
            for ci, chars in enumerate(l):
                for k, (cp, lay) in enumerate(chars):
                    if cp not in (32,) and lay["cls"] != "none" and lay["a"]["cls"] != "none":
                        c = copy.deepcopy(rec)
                        a = c["obs"][li][ci][k][1]["a"]
                        a["h"] = "right" if a["h"] != "right" else "left"
                        out.append(c)
                        return out
    else:
        for k, cue in enumerate(rec["cues"]):
            if cue["pos"]["cls"] != "none" and cue["pos"].get("plain"):
                c = copy.deepcopy(rec)
                d = c["cues"][k]["pos"]["ip"]
                d[-1] = (d[-1] + 3) % 10
                out.append(c)
                return out
    return out
