"""C05  SCC pop-on decoding reproduces the CEA-608 screen: text, rows, italics, position."""
import random
from fractions import Fraction

from . import sccgen, tlc
from .num import limbs

PID = "C05"
TRACE = "Trace_Scc"
RULE = ("(G) all 15 rows x 8 preamble columns x tab offsets 0-3 in both doubling modes (960 addresses); every code of "
        "the basic, special and extended character tables as first / middle / last item of a row; all 5 600 "
        "structured caption loads of Gen_Scc (rows from {2,13,14,15}, adjacent and non-adjacent, columns with and "
        "without tab offset, italic preambles, items: pair, single, special, stand-in+extended, backspace, mid-row "
        "italic on/off) in both doubling modes; (T) random programs of 1-3 captions, 1-4 rows, up to 32 columns, "
        "both timecode flavours. Each observed caption (text per line, italic flag per character, position, balance) "
        "is judged by TLC against the reference decoder run on the abstract program. non-trivial = more than one row, "
        "a special/extended/backspace/mid-row item, a tab offset or doubled codes; distinct by program")
ASSUMPTIONS = ["well-formed pop-on programs: rows ascending within a caption, text fits between its preamble column and column 31, every row ends in a visible character",
               "the cell of a mid-row code is an optional space (present, absent or merged with a neighbouring space)",
               "control codes are all doubled or none is; a preamble and its tab offset are doubled as a unit (PAC TO PAC TO)"]


def model_runs(ctx):
    r = tlc.run("MC_Scc608", cfg="MC_Scc608" if ctx.quick else "MC_Scc608_5", timeout=3000)
    ctx.add_tlc(r, "reference decoder: total, cursor on grid, no invented characters, caption extraction partitions used rows, on all raw command sequences")
    g = tlc.run("Gen_Scc")
    ctx.add_tlc(g, "structured caption loads: reference yields one caption per group of adjacent rows")
    ctx._loads = g.cases()
    ctx.extra["exhaustive"] = True
    ctx.extra["bound"] = "raw sequences to depth %d over 17 actions; 5600 structured loads; 960 addresses; 176 character codes x 3 positions" % (4 if ctx.quick else 5)


def _one_caption(body, f=60):
    tc = [0, 0, f // 30, f % 30]
    return [{"tc": tc, "drop": False, "syms": [{"k": "RCL"}] + body + [{"k": "EOC"}]},
            {"tc": [0, 0, f // 30 + 3, 0], "drop": False, "syms": [{"k": "EDM"}]}]


CTL = ("PAC", "TO", "SP", "EXT", "BS", "MID", "RCL", "ENM", "EDM", "EOC", "RDC", "RU", "CR")


def in_domain(lines, doubled):
    """in single mode the same control / special / extended code is never sent twice in a row
    (a decoder would take the second for the redundant copy)"""
    if doubled:
        return True
    for ln in lines:
        ss = ln["syms"]
        for a, b in zip(ss, ss[1:]):
            if a["k"] in CTL and a == b:
                return False
    return True


def inputs(ctx):
    ins = [i for i in _inputs(ctx) if in_domain(i["lines"], i["doubled"])]
    return ins


def _inputs(ctx):
    rng = random.Random(ctx.seed * 217645177 + 5)
    basic, special, ext = sccgen.tables()
    ins = []
    n = 0
    for row in range(1, 16):
        for col in range(0, 32, 4):
            for to in range(0, 4):
                if col + to + 2 > 32:
                    continue
                body = [{"k": "PAC", "r": row, "c": col, "i": False}] + ([{"k": "TO", "n": to}] if to else []) + \
                       [{"k": "CH", "a": 65, "b": 66}]
                for dbl in (False, True):
                    if ctx.quick and (n % 3):
                        n += 1
                        continue
                    ins.append({"id": "a%d" % n, "lines": _one_caption(body), "doubled": dbl})
                    n += 1
    # blanks that a mid-row code or an italic preamble leaves in a text node of their own: in front of
    # the row's first visible character, and between two mid-row codes
    def ch(a, b=0):
        return {"k": "CH", "a": ord(a), "b": ord(b) if b else 0}
    SPC = {"k": "CH", "a": 32, "b": 32}
    for col in (0, 4):
        for row2 in (None, 15):
            shapes = [[{"k": "PAC", "r": 14, "c": col, "i": False}, SPC, {"k": "MID", "i": True}, ch("A", "B")],
                      [{"k": "PAC", "r": 14, "c": 0, "i": True}, SPC, SPC, {"k": "MID", "i": False}, ch("C", "D")],    # (an italic preamble has no indent)
                      [{"k": "PAC", "r": 14, "c": 0, "i": True}, ch("A", "B"), {"k": "MID", "i": False}, {"k": "MID", "i": True}, ch("C", "D")],
                      [{"k": "PAC", "r": 14, "c": col, "i": False}, ch("A", "B"), {"k": "MID", "i": True}, SPC, {"k": "MID", "i": False}, ch("C", "D")],
                      [{"k": "PAC", "r": 14, "c": col, "i": False}, SPC, ch("A", "B")],
                      [{"k": "PAC", "r": 14, "c": col, "i": False}, {"k": "CH", "a": 32, "b": 0}, {"k": "MID", "i": True}, ch("A", "B"), {"k": "MID", "i": False}, SPC, ch("C")]]
            for body in shapes:
                if row2:
                    body = body + [{"k": "PAC", "r": row2, "c": 0, "i": False}, SPC, {"k": "MID", "i": True}, ch("E", "F")]
                for dbl in (False, True):
                    ins.append({"id": "ws%d" % n, "lines": _one_caption(body), "doubled": dbl})
                    n += 1
    codes = [("CH", c) for c in sorted(basic) if c != 32] + [("SP", c) for c in sorted(special) if c != 32] + \
            [("EXT", c) for c in sorted(ext)]
    for kind, cp in codes:
        for pos in ("first", "middle", "last"):
            if ctx.quick and pos == "middle":
                continue
            item = [{"k": "CH", "a": cp, "b": 0}] if kind == "CH" else \
                   ([{"k": "SP", "x": cp}] if kind == "SP" else [{"k": "CH", "a": 101, "b": 0}, {"k": "EXT", "x": cp}])
            pre = [] if pos == "first" else [{"k": "CH", "a": 72, "b": 105}]
            post = [] if pos == "last" else [{"k": "CH", "a": 122, "b": 0}]
            body = [{"k": "PAC", "r": 14, "c": 4, "i": False}] + pre + item + post
            ins.append({"id": "c%d" % n, "lines": _one_caption(body), "doubled": n % 2 == 0})
            n += 1
    # every extended character after an unusual stand-in (a special character, a blank), and every
    # attribute of the preamble and mid-row codes: the underline twin of each code, the colours
    sp_list = sorted(c for c in special if c != 32)
    for j, cp in enumerate(sorted(ext)):
        for stand in ([{"k": "SP", "x": sp_list[j % len(sp_list)]}], [{"k": "CH", "a": 32, "b": 0}]):
            body = [{"k": "PAC", "r": 14, "c": 4, "i": False}, {"k": "CH", "a": 72, "b": 105}] + stand + \
                   [{"k": "EXT", "x": cp}, {"k": "CH", "a": 122, "b": 0}]
            ins.append({"id": "x%d" % n, "lines": _one_caption(body), "doubled": n % 2 == 0})
            n += 1
    for row in range(1, 16):
        for italic in (False, True):
            for underline in (False, True):
                for color in ((0,) if italic else range(0, 7)):
                    if ctx.quick and not underline and not italic and color not in (0, 3):
                        continue
                    body = [{"k": "PAC", "r": row, "c": 0, "i": italic, "u": underline, "color": color},
                            {"k": "CH", "a": 65, "b": 66}]
                    ins.append({"id": "x%d" % n, "lines": _one_caption(body), "doubled": (n + row) % 2 == 0})
                    n += 1
    for italic in (False, True):
        for underline in (False, True):
            for color in ((0,) if italic else range(0, 7)):
                for lead_italic in (False, True):
                    for dbl in (False, True):
                        body = [{"k": "PAC", "r": 14, "c": 0, "i": lead_italic}, {"k": "CH", "a": 72, "b": 105},
                                {"k": "MID", "i": italic, "u": underline, "color": color}, {"k": "CH", "a": 122, "b": 119}]
                        ins.append({"id": "x%d" % n, "lines": _one_caption(body), "doubled": dbl})
                        n += 1
    for k, c in enumerate(ctx._loads):
        for dbl in ((False, True) if not ctx.quick else (k % 2 == 0,)):
            ins.append({"id": "g%d" % n, "lines": _one_caption(c["syms"]), "doubled": dbl})
            n += 1
    for k in range(600 if ctx.quick else 30000):
        ins.append({"id": "r%d" % k, "lines": sccgen.popon_program(rng), "doubled": rng.random() < 0.5})
    return ins


def _ns(x):
    return limbs(round(Fraction(x) * 1000))


def _grid(v, mul):
    f = Fraction(repr(float(v))) * mul
    return int(f) if f.denominator == 1 else -1


def project_caption(c):
    from pycaption import CaptionNode
    nodes = []
    for nd in c.nodes:
        if nd.type_ == CaptionNode.TEXT:
            nodes.append({"t": "T", "s": [ord(ch) for ch in nd.content]})
        elif nd.type_ == CaptionNode.BREAK:
            nodes.append({"t": "BR"})
        else:
            nodes.append({"t": "S", "on": bool(nd.start)})
    lay = c.layout_info
    x32 = y15 = -1
    if lay is not None and lay.origin is not None and lay.origin.x.unit.value == "%":
        x32 = _grid(lay.origin.x.value, 32)
        y15 = _grid(lay.origin.y.value, 15)
    return {"start": _ns(c.start), "end": _ns(c.end), "x32": x32, "y15": y15, "nodes": nodes}


def read_scc(text, **kw):
    import pycaption
    try:
        cs = pycaption.SCCReader().read(text, **kw)
        lg = cs.get_languages()[0]
        return {"ok": True, "err": "", "caps": [project_caption(c) for c in cs.get_captions(lg)]}
    except Exception as e:
        return {"ok": False, "err": type(e).__name__, "msg": str(e)[:300], "caps": []}


def execute(inp):
    text, abs_lines = sccgen.render_program(inp["lines"], inp["doubled"])
    rec = {"k": "popon", "prog": abs_lines, "obs": read_scc(text)}
    # the same program with its control codes sent the other way (single <-> doubled) reads the same,
    # timing aside (where the program is well-formed both ways)
    if in_domain(inp["lines"], False):
        other, _ = sccgen.render_program(inp["lines"], not inp["doubled"])
        rec["other"] = read_scc(other)
    return rec


def _rows_of(lines):
    caps = []
    for ln in lines:
        rows = [s["r"] for s in ln["syms"] if s["k"] == "PAC"]
        if rows:
            caps.append(rows)
    return caps


def signature(inp, rec, clause):
    sig = {"clause": clause.split(" ")[0]}
    caps = _rows_of(inp["lines"])
    near = False
    for a, b in zip(caps, caps[1:]):
        if b[0] - a[-1] in (0, 1):
            near = True
    sig["next_caption_on_or_below_previous_last_row"] = near
    return sig


def nontrivial(inp, rec):
    kinds = {s["k"] for ln in inp["lines"] for s in ln["syms"]}
    if inp["doubled"] or kinds & {"SP", "EXT", "BS", "MID", "TO"} or any(len(r) > 1 for r in _rows_of(inp["lines"])):
        return inp["id"]
    return None


def corrupt(inp, rec):
    import copy
    if not rec["obs"]["ok"] or not rec["obs"]["caps"]:
        return []
    out = []
    c = copy.deepcopy(rec)
    for nd in c["obs"]["caps"][0]["nodes"]:
        if nd["t"] == "T" and nd["s"]:
            nd["s"][0] = nd["s"][0] + 1 if nd["s"][0] not in (31, 159) else 65
            out.append(c)
            break
    c = copy.deepcopy(rec)
    c["obs"]["caps"][0]["x32"] += 80
    out.append(c)
    c = copy.deepcopy(rec)
    c["obs"]["caps"][0]["y15"] += 90
    out.append(c)
    c = copy.deepcopy(rec)
    c["obs"]["caps"][0]["nodes"] = [{"t": "S", "on": True}] + c["obs"]["caps"][0]["nodes"] + [{"t": "S", "on": False}]
    out.append(c)
    return out
