"""Projections of pycaption objects into the abstract vocabulary (no verdicts here)."""
import hashlib
import json
from fractions import Fraction


def size_d(s):
    if s is None:
        return None
    return [str(Fraction(s.value)), s.unit.value]


def layout_d(l):
    if l is None:
        return None
    o, e, p, a = l.origin, l.extent, l.padding, l.alignment
    return {
        "o": [size_d(o.x), size_d(o.y)] if o is not None else None,
        "e": [size_d(e.horizontal), size_d(e.vertical)] if e is not None else None,
        "p": [size_d(p.before), size_d(p.after), size_d(p.start), size_d(p.end)] if p is not None else None,
        "a": [a.horizontal.value if a.horizontal else None, a.vertical.value if a.vertical else None] if a is not None else None,
        "w": l.webvtt_positioning,
    }


def _plain(v):
    if isinstance(v, dict):
        return {str(k): _plain(x) for k, x in sorted(v.items(), key=lambda kv: str(kv[0]))}
    if isinstance(v, (list, tuple)):
        return [_plain(x) for x in v]
    if isinstance(v, (str, int, bool)) or v is None:
        return v
    if isinstance(v, float):
        return str(Fraction(v))
    return repr(v)


def node_d(n):
    return {"t": n.type_, "c": _plain(n.content), "s": n.start, "l": layout_d(n.layout_info)}


def caption_d(c):
    return {"s": str(Fraction(c.start)), "e": str(Fraction(c.end)), "n": [node_d(n) for n in c.nodes],
            "st": _plain(c.style), "l": layout_d(c.layout_info)}


def set_d(cs):
    """canonical, order-preserving dump of a CaptionSet"""
    langs = []
    for lg in cs.get_languages():
        caps = cs.get_captions(lg)
        langs.append({"lang": lg, "l": layout_d(getattr(caps, "layout_info", None)),
                      "caps": [caption_d(c) for c in caps]})
    return {"langs": langs, "styles": _plain(dict(cs.get_styles())), "l": layout_d(cs.layout_info)}


def digest(obj):
    return hashlib.sha1(json.dumps(obj, sort_keys=True, ensure_ascii=True).encode()).hexdigest()[:16]


def set_digest(cs):
    return digest(set_d(cs))


def text_digest(s):
    return hashlib.sha1(s.encode("utf-8", "surrogatepass")).hexdigest()[:16]
