"""C04  Read text equals authored text: entities decoded once, markup stripped."""
import html.entities
import random

from . import render, tlc

PID = "C04"
TRACE = "Trace_TextCodec"
RULE = ("(G) every sequence of up to 2 (quick) / 3 (thorough) authored units of MC_ReadText (characters, character "
        "references in named / decimal / hex spelling, literal entity-looking text, tagged spans two levels deep, "
        "WebVTT voice / class / ruby / lang / timestamp / unknown tags, source-line wraps, line breaks) serialised "
        "by the harness's own per-format serialisers for every format the units exist in, inside a two-cue document; "
        "(T) random long item sequences incl. all HTML named entities (SAMI) and supplementary-plane numeric "
        "references. non-trivial = the sequence contains a reference, literal entity text, a tag, a wrap or a break; "
        "distinct by (format, items)")
ASSUMPTIONS = ["equality is up to trimming each line and collapsing whitespace runs (as the statement says)",
               "documents whose displayed text would contain a blank line are not generated for SRT / WebVTT / MicroDVD (a blank line ends the cue there)"]

FORMATS = ["SRT", "MicroDVD", "WebVTT", "DFXP", "SAMI"]
XML_NAMED = {38: "amp", 60: "lt", 62: "gt", 34: "quot", 39: "apos"}
VTT_NAMED = {38: "amp", 60: "lt", 62: "gt", 160: "nbsp", 8206: "lrm", 8207: "rlm"}
HTML_NAMED = {}
for _n, _c in html.entities.name2codepoint.items():
    HTML_NAMED.setdefault(_c, _n)
HTML_NAMED[39] = "apos"


def model_runs(ctx):
    res = tlc.run("MC_ReadText", cfg="MC_ReadText" if ctx.quick else "MC_ReadText3")
    ctx.add_tlc(res, "oracle sanity: Display yields authored characters only (references once, tags nothing)")
    ctx._cases = res.cases()
    ctx.extra["exhaustive"] = True
    ctx.extra["bound"] = "sequences of <= %d units over 34 units" % (2 if ctx.quick else 3)


def _esc(c, fmt):
    ch = chr(c)
    if fmt in ("SRT", "MicroDVD"):
        return ch
    if ch == "&":
        return "&amp;"
    if ch == "<":
        return "&lt;"
    if ch == ">":
        return "&gt;"
    return ch


def serialise(items, fmt):
    """-> text of the cue body, or None when some item does not exist in the format"""
    out = []
    for x in items:
        t = x["t"]
        if t == "ch":
            if fmt == "MicroDVD" and x["c"] == 124:
                return None
            out.append(_esc(x["c"], fmt))
        elif t == "ent":
            if fmt in ("SRT", "MicroDVD"):
                return None
            sp = x["sp"]
            if sp == "dec":
                out.append("&#%d;" % x["c"])
            elif sp == "dec0":
                # zero-padded decimal (&#038; is the ampersand, as WordPress and others write it)
                out.append("&#0%d;" % x["c"] if x["c"] > 99 else "&#%03d;" % x["c"])
            elif sp == "hexlc":
                out.append("&#x%x;" % x["c"])
            elif sp == "hex":
                out.append("&#x%X;" % x["c"])
            else:
                table = {"WebVTT": VTT_NAMED, "DFXP": XML_NAMED, "SAMI": HTML_NAMED}[fmt]
                if x["c"] not in table:
                    return None
                out.append("&%s;" % table[x["c"]])
        elif t == "lit":
            s = "".join(chr(c) for c in x["s"])
            if x.get("cdata"):
                # a CDATA section is one more spelling of literal text in XML
                if fmt != "DFXP" or "]]>" in s:
                    return None
                out.append("<![CDATA[%s]]>" % s)
            elif x.get("raw"):
                if fmt != "WebVTT":
                    return None
                out.append(s)
            else:
                out.append("".join(_esc(ord(c), fmt) for c in s))
        elif t == "voice":
            if fmt != "WebVTT":
                return None
            # the annotation is text too: & < > in a speaker's name are written as references
            out.append("<v %s>" % "".join(_esc(c, fmt) if c in (38, 60, 62) else chr(c) for c in x["s"]))
        elif t == "tag":
            k, op = x["kind"], x["open"]
            if fmt == "WebVTT":
                if k in ("i", "b", "u", "ruby", "rt"):
                    out.append("<%s>" % k if op else "</%s>" % k)
                elif k == "c":
                    out.append("<c.yellow>" if op else "</c>")
                elif k == "lang":
                    out.append("<lang en>" if op else "</lang>")
                elif k == "v":
                    out.append("</v>")
                elif k == "ts":
                    out.append("<00:00:01.500>")
                else:
                    return None
            elif fmt == "DFXP":
                if k == "span":
                    out.append("<span>" if op else "</span>")
                elif k == "spanstyle":
                    out.append('<span tts:fontStyle="italic">' if op else "</span>")
                else:
                    return None
            elif fmt == "SAMI":
                if k in ("i", "b", "u"):
                    out.append("<%s>" % k if op else "</%s>" % k)
                elif k == "span":
                    out.append("<span>" if op else "</span>")
                elif k == "spanstyle":
                    out.append('<span style="font-style:italic;">' if op else "</span>")
                else:
                    return None
            else:
                return None
        elif t == "wrap":
            if fmt not in ("DFXP", "SAMI"):
                return None
            out.append("\n        ")
        elif t == "br":
            out.append({"SRT": "\n", "WebVTT": "\n", "MicroDVD": "|", "DFXP": "<br/>", "SAMI": "<br/>"}[fmt])
    return "".join(out)


def _display_lines(items):
    """only to filter the domain (no blank displayed line for line-oriented formats)"""
    lines = [""]
    for x in items:
        t = x["t"]
        if t in ("ch", "ent"):
            lines[-1] += chr(x["c"])
        elif t == "lit":
            lines[-1] += "".join(chr(c) for c in x["s"])
        elif t == "voice":
            lines[-1] += "".join(chr(c) for c in x["s"]) + ": "
        elif t == "wrap":
            lines[-1] += " "
        elif t == "br":
            lines.append("")
    return lines


def _admissible(items, fmt):
    lines = _display_lines(items)
    vis = [l for l in lines if l.replace("\xa0", " ").strip()]
    if not vis:
        return False
    if fmt in ("SRT", "WebVTT", "MicroDVD") and len(vis) != len(lines):
        return False
    if fmt == "SRT" and lines[0].strip().isdigit() is True and False:
        return False
    if fmt == "WebVTT" and any("-->" in l for l in lines):
        return False
    return True


def inputs(ctx):
    rng = random.Random(ctx.seed * 67867967 + 4)
    ins = []
    n = 0
    for c in ctx._cases:
        for fmt in FORMATS:
            if serialise(c["items"], fmt) is not None and _admissible(c["items"], fmt):
                ins.append({"id": "g%d" % n, "fmt": fmt, "cues": [c["items"], [{"t": "ch", "c": 122}]]})
                n += 1
    # authored text that looks like markup once its references are decoded (a reader that strips tags
    # after decoding eats it), in every format
    def chs(text):
        return [{"t": "ch", "c": ord(c)} for c in text]
    looks = ["use <i> for italics", "x<c and c>y", "<v Bob> hi", "wait <00:00:05.000> here", "a<b and c>d", "x</i>y",
             "<ruby>x</ruby>", "<lang en>x", "<b>bold</b>", "a<u>b", "<c.yellow>x</c>", "1 < 2 > 0", "a<>b", "<!-- x -->y",
             "a<br>b", "a<br/>b", "<span>x</span>", "<p>x", "a<i", "i>a", "a <i b", "<1>x", "AT&T <i>Corp</i>", "a<rt>b</rt>",
             "x <v.loud Ann>y", "</v>x", "<i>", "a&lt;i&gt;b", "a&amp;lt;b", "&#60;i&#62;x",
             # authored text that spells out a reference (the source then holds &amp;apos; and so on)
             "it&apos;s", "say &quot;hi&quot;", "a&nbsp;b", "&#39;x&#39;", "&amp;apos;", "R&amp;D &apos;lab&apos;", "&lrm;x", "50&percnt;"]
    for text in looks:
        for fmt in FORMATS:
            items = chs(text)
            if serialise(items, fmt) is not None and _admissible(items, fmt):
                ins.append({"id": "k%d" % n, "fmt": fmt, "cues": [items, chs("z")]})
                n += 1
    # zero-padded decimal and lower-case hexadecimal references
    for c in (38, 60, 233, 0x4e2d, 65):
        for sp in ("dec0", "hexlc"):
            for fmt in ("DFXP", "SAMI"):
                ins.append({"id": "k%d" % n, "fmt": fmt, "cues": [chs("a ") + [{"t": "ent", "c": c, "sp": sp}] + chs(" b"), chs("z")]})
                n += 1
    # a speaker's name that needs escaping inside a WebVTT voice tag
    for name in ("Tom & Jerry", "Q&A Host", "<unknown>", "A<B", "R&D"):
        items = [{"t": "voice", "s": [ord(c) for c in name]}] + chs("hello there") + [{"t": "tag", "kind": "v", "open": False}]
        ins.append({"id": "k%d" % n, "fmt": "WebVTT", "cues": [items, chs("z")]})
        n += 1
    # a line break that is the last thing inside an inline element, with more text after the element
    for fmt, kinds in (("DFXP", ["span", "spanstyle"]), ("SAMI", ["i", "span", "spanstyle"]), ("WebVTT", ["i", "c"])):
        for kind in kinds:
            for tail in ("When we think", " then"):
                items = ([{"t": "tag", "kind": kind, "open": True}] + chs("MAN:") + [{"t": "br"}, {"t": "tag", "kind": kind, "open": False}] + chs(tail))
                ins.append({"id": "k%d" % n, "fmt": fmt, "cues": [items, chs("z")]})
                n += 1
                items = (chs("so ") + [{"t": "tag", "kind": kind, "open": True}] + chs("MAN:") + [{"t": "br"}, {"t": "tag", "kind": kind, "open": False},
                         {"t": "tag", "kind": kind, "open": True}] + chs(tail) + [{"t": "tag", "kind": kind, "open": False}])
                ins.append({"id": "k%d" % n, "fmt": fmt, "cues": [items, chs("z")]})
                n += 1
    # SRT blocks separated by lines that hold white space only (editors that keep trailing blanks)
    for sep in (" ", "\t", "  \t "):
        for text in ("one", "two words", "a<b"):
            ins.append({"id": "k%d" % n, "fmt": "SRT", "cues": [chs(text), chs("middle"), chs("z")], "sep": sep})
            n += 1
    # a text node that is wrapped over source lines AND touches an inline element with a space
    for fmt, kinds in (("DFXP", ["span", "spanstyle"]), ("SAMI", ["i", "b", "u", "span", "spanstyle"])):
        for kind in kinds:
            for lead, trail in (("cd ", " gh"), ("cd", " gh"), ("cd ", "gh"), ("cd  ", "  gh")):
                items = (chs("ab") + [{"t": "wrap"}] + chs(lead) + [{"t": "tag", "kind": kind, "open": True}] + chs("ef") +
                         [{"t": "tag", "kind": kind, "open": False}] + chs(trail) + [{"t": "wrap"}] + chs("ij"))
                ins.append({"id": "k%d" % n, "fmt": fmt, "cues": [items, chs("z")]})
                n += 1
    # two inline elements with nothing but one blank between them (the blank is the word separator),
    # and a blank-only run before a break / at the end of the cue
    for fmt, kinds in (("DFXP", ["span", "spanstyle"]), ("SAMI", ["i", "b", "span"]), ("WebVTT", ["i", "b", "c"])):
        for k1 in kinds:
            for k2 in kinds:
                for sep in (" ", "  "):
                    items = (chs("go ") + [{"t": "tag", "kind": k1, "open": True}] + chs("WARNING") + [{"t": "tag", "kind": k1, "open": False}] +
                             chs(sep) + [{"t": "tag", "kind": k2, "open": True}] + chs("wet") + [{"t": "tag", "kind": k2, "open": False}] + chs(" floor"))
                    ins.append({"id": "k%d" % n, "fmt": fmt, "cues": [items, chs("z")]})
                    n += 1
    # CDATA sections (DFXP): literal text that needs no escaping, alone, between characters, in a span
    def cd(text):
        return {"t": "lit", "s": [ord(c) for c in text], "raw": False, "cdata": True}
    for text in ("a < b && c > d", "plain", "x]]y", "&amp; stays", "<i>not a tag</i>", " padded "):
        for items in ([cd(text)], chs("if ") + [cd(text)] + chs(" then"),
                      chs("p ") + [{"t": "tag", "kind": "span", "open": True}, cd(text), {"t": "tag", "kind": "span", "open": False}] + chs(" q"),
                      [cd(text), {"t": "br"}] + chs("next")):
            if serialise(items, "DFXP") is not None and _admissible(items, "DFXP"):
                ins.append({"id": "k%d" % n, "fmt": "DFXP", "cues": [items, chs("z")]})
                n += 1
    # a hexadecimal and a decimal reference written with the same digits (&#x41; is 'A', &#41; is ')'),
    # in one cue, in two cues of one document, in either order
    for hx in (0x41, 0x65, 0x38, 0x60, 0x21, 0x79):
        dc = int("%x" % hx)
        a = {"t": "ent", "c": hx, "sp": "hex"}
        b = {"t": "ent", "c": dc, "sp": "dec"}
        for fmt in ("DFXP", "SAMI"):
            for first, second in ((a, b), (b, a)):
                ins.append({"id": "k%d" % n, "fmt": fmt, "cues": [chs("x") + [first] + chs("y") + [second], chs("z")]})
                n += 1
                ins.append({"id": "k%d" % n, "fmt": fmt, "cues": [chs("x") + [first], chs("y") + [second]]})
                n += 1
    vocab_ch = [97, 98, 32, 38, 60, 62, 39, 34, 233, 0x4e2d, 0x1f600, 45, 59, 35]
    for k in range(800 if ctx.quick else 40000):
        fmt = rng.choice(FORMATS)
        cues = []
        for _ in range(rng.randrange(1, 4)):
            items = []
            depth = []
            for _ in range(rng.randrange(1, 25)):
                r = rng.random()
                if r < 0.45:
                    items.append({"t": "ch", "c": rng.choice(vocab_ch)})
                elif r < 0.6:
                    c = rng.choice([38, 60, 62, 39, 34, 233, 0x1f600, 0x10348] + (list(HTML_NAMED)[:] if fmt == "SAMI" else []))
                    items.append({"t": "ent", "c": c, "sp": rng.choice(["named", "dec", "hex"])})
                elif r < 0.7:
                    items.append({"t": "lit", "s": [ord(ch) for ch in rng.choice(["&lt;", "&amp;", "&#65;", "&gt;", "&amp;lt;", "&nbsp;"])], "raw": False})
                elif r < 0.8 and len(depth) < 3:
                    kind = rng.choice({"WebVTT": ["i", "b", "u", "c", "lang", "ruby"], "DFXP": ["span", "spanstyle"],
                                       "SAMI": ["i", "b", "u", "span", "spanstyle"]}.get(fmt, ["i"]))
                    if kind not in depth:
                        items.append({"t": "tag", "kind": kind, "open": True})
                        items.append({"t": "ch", "c": 120})
                        depth.append(kind)
                elif r < 0.88 and depth:
                    items.append({"t": "tag", "kind": depth.pop(), "open": False})
                elif r < 0.94:
                    items.append({"t": "br"})
                    items.append({"t": "ch", "c": 119})
                else:
                    items.append({"t": "wrap"})
                    items.append({"t": "ch", "c": 118})
            while depth:
                items.append({"t": "tag", "kind": depth.pop(), "open": False})
            cues.append(items)
        if all(serialise(i, fmt) is not None and _admissible(i, fmt) for i in cues):
            ins.append({"id": "r%d" % k, "fmt": fmt, "cues": cues})
    return ins


def execute(inp):
    import pycaption
    fmt = inp["fmt"]
    bodies = [serialise(i, fmt) for i in inp["cues"]]
    rec = {"k": "readtext", "fmt": fmt, "cues": [_annotate(i, fmt) for i in inp["cues"]]}
    try:
        if fmt == "SRT":
            doc = render.srt_doc([("00:00:%02d,000" % (2 * k + 1), "00:00:%02d,000" % (2 * k + 2), b.split("\n"))
                                  for k, b in enumerate(bodies)])
            if inp.get("sep"):
                doc = doc.replace("\n\n", "\n" + inp["sep"] + "\n")
            cs = pycaption.SRTReader().read(doc)
        elif fmt == "WebVTT":
            doc = render.webvtt_doc([("00:00:%02d.000" % (2 * k + 1), "00:00:%02d.000" % (2 * k + 2), b.split("\n"))
                                     for k, b in enumerate(bodies)])
            cs = pycaption.WebVTTReader().read(doc)
        elif fmt == "MicroDVD":
            doc = render.microdvd_doc([(str(50 * k + 25), str(50 * k + 50), [b]) for k, b in enumerate(bodies)])
            cs = pycaption.MicroDVDReader().read(doc)
        elif fmt == "DFXP":
            doc = render.dfxp_doc([("en", [('begin="00:00:%02d.000" end="00:00:%02d.000"' % (2 * k + 1, 2 * k + 2),
                                            "\n        " + b + "\n      ") for k, b in enumerate(bodies)])])
            cs = pycaption.DFXPReader().read(doc)
        else:
            doc = render.sami_doc([("ENCC", "en-US")],
                                  [(str(2000 * k + 1000), [("ENCC", "\n   " + b + "\n")]) for k, b in enumerate(bodies)])
            cs = pycaption.SAMIReader().read(doc)
        lang = cs.get_languages()[0]
        caps = []
        for c in cs.get_captions(lang):
            caps.append([[ord(ch) for ch in ln] for ln in c.get_text().split("\n")])
        rec["obs"] = {"ok": True, "caps": caps}
    except Exception as e:
        rec["obs"] = {"ok": False, "caps": [], "err": type(e).__name__ + ": " + str(e)[:200]}
    return rec


def _annotate(items, fmt):
    """adds the literal spelling to references and marks wraps that touch an inline tag
    (used only by the deviation re-validation of known findings)"""
    out = []
    for k, x in enumerate(items):
        x = dict(x)
        if x["t"] == "ent":
            x["raw"] = [ord(c) for c in serialise([x], fmt)]
        elif x["t"] == "wrap":
            prev = items[k - 1]["t"] if k else None
            nxt = items[k + 1]["t"] if k + 1 < len(items) else None
            x["attag"] = prev in ("tag", "voice") or nxt in ("tag", "voice")
        out.append(x)
    return out


def _feat(items):
    f = set()
    for x in items:
        if x["t"] == "ent":
            f.add("ent:" + x["sp"])
        elif x["t"] == "lit":
            f.add("rawlit" if x.get("raw") else "lit")
        elif x["t"] in ("wrap", "voice"):
            f.add(x["t"])
        elif x["t"] == "tag":
            f.add("tag")
    return f


def signature(inp, rec, clause):
    f = set()
    for i in inp["cues"]:
        f |= _feat(i)
    sig = {"clause": clause.split(" ")[0], "fmt": inp["fmt"],
           "numeric_ref": bool(f & {"ent:dec", "ent:hex"}),
           "wrap_at_tag": any(x["t"] == "wrap" and x["attag"] for c in rec["cues"] for x in c)}
    return sig


def nontrivial(inp, rec):
    if any(_feat(i) or any(x["t"] == "br" for x in i) for i in inp["cues"]):
        return [inp["fmt"], inp["cues"]]
    return None


def corrupt(inp, rec):
    import copy
    if not rec["obs"]["ok"] or not rec["obs"]["caps"]:
        return []
    c = copy.deepcopy(rec)
    ln = c["obs"]["caps"][0][0]
    vis = [k for k, x in enumerate(ln) if x not in (32, 160)]
    out = []
    if vis:
        ln[vis[0]] = ln[vis[0]] + 1
        out.append(c)
    c = copy.deepcopy(rec)
    c["obs"]["caps"] = c["obs"]["caps"][1:]
    out.append(c)
    return out
