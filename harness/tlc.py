"""TLC driver: run a module/config, collect PrintT strings and state counts.

Everything the specifications report to the harness travels as *one TLA+ string
per PrintT call* (a string is printed on one line, so 16 workers cannot
interleave inside it).  Conventions used by the specs:

    "CASE <json>"              an abstract behaviour enumerated by a Gen_* spec
    "REJECT <id> <clause>"     a recorded execution the Trace_* spec refuses
    "NOTE <text>"              informational

Exit status of this module's functions is never a property verdict; a TLC crash
raises MachineryError, which ./check turns into exit code 2.
"""
import json
import os
import re
import shutil
import subprocess
import tempfile
import time

ROOT = os.path.dirname(os.path.dirname(os.path.abspath(__file__)))
SPEC = os.path.join(ROOT, "spec")
BUILD = os.path.join(ROOT, "build")
JAR = "/opt/veriftools/tla/tla2tools.jar:/opt/veriftools/tla/CommunityModules-deps.jar"


class MachineryError(Exception):
    pass


_STR = re.compile(r'^"((?:[^"\\]|\\.)*)"$')


def _unescape(s):
    out = []
    i = 0
    while i < len(s):
        c = s[i]
        if c == "\\" and i + 1 < len(s):
            n = s[i + 1]
            out.append({"n": "\n", "t": "\t", "r": "\r", "f": "\f"}.get(n, n))
            i += 2
        else:
            out.append(c)
            i += 1
    return "".join(out)


class TlcResult:
    def __init__(self):
        self.strings = []        # PrintT strings, unescaped
        self.generated = 0
        self.distinct = 0
        self.ok = False          # "No error has been found"
        self.violated = None     # name of violated invariant / property, if any
        self.stdout = ""
        self.wall = 0.0
        self.cmd = ""
        self.coverage = {}

    def cases(self):
        return [json.loads(s[5:]) for s in self.strings if s.startswith("CASE ")]

    def rejects(self):
        out = []
        for s in self.strings:
            if s.startswith("REJECT "):
                parts = s.split(" ", 2)
                out.append((parts[1], parts[2] if len(parts) > 2 else ""))
        return out


def run(module, cfg=None, workers=None, env=None, timeout=3600, simulate=None,
        depth=None, seed=None, extra=(), heap="6g", coverage=False,
        allow_violation=False):
    """Run TLC on spec/<module>.tla with spec/<cfg>.cfg.  Returns TlcResult."""
    os.makedirs(BUILD, exist_ok=True)
    meta = tempfile.mkdtemp(prefix="tlc-", dir=BUILD)
    cfg = cfg or module
    if workers is None:
        workers = os.cpu_count() or 4
    cmd = ["java", "-XX:+UseParallelGC", "-Xss64m", "-Xmx" + heap, "-cp", JAR, "tlc2.TLC",
           "-workers", str(workers), "-metadir", meta, "-noGenerateSpecTE",
           "-config", cfg + ".cfg"]
    if simulate:
        cmd += ["-simulate", simulate]
    if depth:
        cmd += ["-depth", str(depth)]
    if seed is not None:
        cmd += ["-seed", str(seed)]
    if coverage:
        cmd += ["-coverage", "1"]
    cmd += list(extra)
    cmd.append(module + ".tla")
    e = dict(os.environ)
    e.pop("JAVA_TOOL_OPTIONS", None)
    if env:
        e.update({k: str(v) for k, v in env.items()})
    r = TlcResult()
    r.cmd = " ".join(cmd[5:])
    t0 = time.time()
    try:
        p = subprocess.run(cmd, cwd=SPEC, env=e, stdout=subprocess.PIPE,
                           stderr=subprocess.STDOUT, timeout=timeout)
    except subprocess.TimeoutExpired:
        shutil.rmtree(meta, ignore_errors=True)
        raise MachineryError("TLC timed out after %ss: %s" % (timeout, r.cmd))
    finally:
        pass
    r.wall = time.time() - t0
    shutil.rmtree(meta, ignore_errors=True)
    out = p.stdout.decode("utf-8", "replace")
    r.stdout = out
    for line in out.splitlines():
        m = _STR.match(line)
        if m:
            r.strings.append(_unescape(m.group(1)))
            continue
        m = re.match(r"^(\d+) states generated, (\d+) distinct states found", line)
        if m:
            r.generated, r.distinct = int(m.group(1)), int(m.group(2))
        m = re.match(r"^The number of states generated: (\d+)", line)
        if m:
            r.generated = int(m.group(1))
        if "No error has been found" in line or "Finished computing initial states" in line and simulate:
            r.ok = True
        m = re.match(r"^Error: Invariant (\S+) is violated", line)
        if m:
            r.violated = m.group(1)
        m = re.match(r"^Error: Action property (\S+) is violated", line)
        if m:
            r.violated = m.group(1)
        if line.startswith("Error: Temporal properties were violated"):
            r.violated = "temporal"
    if r.violated:
        r.ok = False
        if not allow_violation:
            raise MachineryError("TLC reports %s violated in %s:\n%s"
                                 % (r.violated, r.cmd, _tail(out)))
        return r
    if p.returncode != 0 or not r.ok:
        raise MachineryError("TLC failed (exit %s) on %s:\n%s"
                             % (p.returncode, r.cmd, _tail(out)))
    return r


def _tail(out, n=40):
    lines = [l for l in out.splitlines() if not _STR.match(l)]
    return "\n".join(lines[-n:])


def judge(module, records, cfg=None, workers=None, chunk=None, timeout=3600,
          env=None, label="trace"):
    """Direction (T): hand recorded executions to Trace spec `module`.

    `records` is a list of dicts, each with a unique string field "id".
    The spec reads them with ndJsonDeserialize(IOEnv.TRACE_FILE), consumes each
    record in its own TLC state and prints one REJECT line per refused record.
    Returns (rejects, stats) where rejects is a list of (id, clause) and stats
    has generated/distinct/wall.  Raises MachineryError unless TLC consumed every
    record (checked with the distinct-state count: one state per record + 1).
    """
    os.makedirs(BUILD, exist_ok=True)
    if not records:
        return [], {"generated": 0, "distinct": 0, "wall": 0.0, "records": 0}
    ids = [r["id"] for r in records]
    if len(set(ids)) != len(ids):
        raise MachineryError("duplicate record ids handed to %s" % module)
    chunk = chunk or 20000
    max_bytes = 16 * 1024 * 1024
    rejects = []
    tot = {"generated": 0, "distinct": 0, "wall": 0.0, "records": len(records), "cmd": ""}
    # chunks of at most `chunk` records and about 16 MB of JSON: TLC holds the whole decoded
    # file in memory, and beyond that the JVM spends its time collecting garbage
    parts = []
    cur, size = [], 0
    for rec in records:
        line = json.dumps(rec, ensure_ascii=True, separators=(",", ":"))
        if cur and (len(cur) >= chunk or size + len(line) > max_bytes):
            parts.append(cur)
            cur, size = [], 0
        cur.append((rec, line))
        size += len(line) + 1
    if cur:
        parts.append(cur)
    for part_lines in parts:
        part = [r for r, _ in part_lines]
        fd, path = tempfile.mkstemp(prefix=label + "-", suffix=".ndjson", dir=BUILD)
        with os.fdopen(fd, "w") as f:
            for _, line in part_lines:
                f.write(line)
                f.write("\n")
        e = {"TRACE_FILE": path}
        if env:
            e.update(env)
        try:
            res = run(module, cfg=cfg, workers=workers, env=e, timeout=timeout)
        finally:
            os.unlink(path)
        if res.distinct != len(part) + 1:
            raise MachineryError(
                "%s consumed %d of %d records:\n%s"
                % (module, res.distinct - 1, len(part), _tail(res.stdout)))
        known = {r["id"] for r in part}
        for rid, clause in res.rejects():
            if rid not in known:
                raise MachineryError("%s rejected unknown id %r" % (module, rid))
            rejects.append((rid, clause))
        tot["generated"] += res.generated
        tot["distinct"] += res.distinct
        tot["wall"] += res.wall
        tot["cmd"] = res.cmd
    return rejects, tot


def sany(module):
    p = subprocess.run(["java", "-cp", JAR, "tla2sany.SANY", module + ".tla"],
                       cwd=SPEC, stdout=subprocess.PIPE, stderr=subprocess.STDOUT)
    out = p.stdout.decode()
    ok = p.returncode == 0 and "Semantic errors" not in out and "***Parse Error***" not in out \
        and "Fatal errors" not in out and "Could not find module" not in out
    return ok, out
